"""C10 - drivers that run a masked-tensor program on the real pose_format classes (public API only).

snapshot of a register: [value shape, value words (float64 bit patterns), mask shape, mask bits]."""
import struct

import numpy as np

from c10_ref import dec_val

NAN_WORD = 0x7FF8000000000000


def f2w(x):
    x = float(x)
    if x != x:
        return NAN_WORD
    return struct.unpack("<Q", struct.pack("<d", x))[0]


def w2f(w):
    return struct.unpack("<d", struct.pack("<Q", w))[0]


def snap_np(v, m):
    v = np.asarray(v, dtype=np.float64)
    m = np.asarray(m)
    return [list(v.shape), [f2w(x) for x in v.reshape(-1).tolist()], list(m.shape), [int(bool(x)) for x in m.reshape(-1).tolist()]]


class TorchDriver:
    name = "torch"

    def __init__(self):
        import torch
        from pose_format.torch.masked.tensor import MaskedTensor
        from pose_format.torch.masked.torch import MaskedTorch
        self.torch, self.MT, self.F = torch, MaskedTensor, MaskedTorch

    def plain(self, shape, vals):
        return self.torch.from_numpy(np.array([dec_val(x) for x in vals], dtype=np.float64).reshape(shape))

    def make(self, t):
        # program inputs arrive in various memory layouts (contiguous, transposed storage, strided view): no operation may care
        import common
        lay = len(t["vals"]) + sum(t["shape"]) + sum(int(bool(b)) for b in t["mask"])
        return self.MT(common.vary_torch(self.plain(t["shape"], t["vals"]), lay),
                       common.vary_torch(self.torch.from_numpy(np.array(t["mask"], dtype=bool).reshape(t["shape"])), lay + 1))

    def snap(self, x):
        return snap_np(x.tensor.detach().numpy(), x.mask.detach().numpy())

    def operand(self, o, env):
        if o[0] == "reg":
            return env[o[1]]
        if o[0] == "plain":
            return self.plain(o[1], o[2])
        return float(o[1])

    def key(self, items):
        k = tuple(i[1] if i[0] == "i" else slice(i[1], i[2], i[3]) for i in items)
        return k

    def exec(self, ins, env):
        op = ins[0]
        MT, F = self.MT, self.F
        if op == "getitem":
            return [env[ins[1]][self.key(ins[2])]]
        if op == "getlist":
            return [env[ins[1]][list(ins[2])]]
        if op == "arith":
            a, b = env[ins[2]], self.operand(ins[3], env)
            if ins[1] == "add":
                return [a + b]
            if ins[1] == "sub":
                return [a - b]
            if ins[1] == "mul":
                return [a * b]
            if ins[1] == "div":
                return [a / b]
            raise TypeError("operation not offered")
        if op == "divm":
            return [env[ins[1]].div(env[ins[2]], update_mask=bool(ins[3]))]
        if op == "sum":
            return [env[ins[1]].sum(dim=ins[2])]
        if op == "transpose":
            return [env[ins[1]].transpose(ins[2], ins[3])]
        if op == "permute":
            return [env[ins[1]].permute(tuple(ins[2]))]
        if op == "squeeze":
            if ins[2] is None:
                return [F.squeeze(env[ins[1]])]
            return [env[ins[1]].squeeze(ins[2])]
        if op == "split":
            a = ins[2] if isinstance(ins[2], int) else list(ins[2])
            return list(env[ins[1]].split(a, ins[3]))
        if op == "reshape":
            return [env[ins[1]].reshape(tuple(ins[2]))]
        if op == "cat":
            return [F.cat([self.operand(o, env) for o in ins[1]], dim=ins[2])]
        if op == "stack":
            return [F.stack([env[r] for r in ins[1]], dim=ins[2])]
        if op == "matmul":
            return [env[ins[1]].matmul(self.plain(ins[2], ins[3]))]
        if op == "zerofill":
            return [MT(env[ins[1]].zero_filled())]
        if op == "unary":
            if ins[2] != "fallback":
                raise TypeError("operation not offered")
            return [self.wrapped(getattr(F, ins[1])(env[ins[3]]))]
        if op == "fallback":
            return [self.wrapped(getattr(F, ins[1])(env[ins[2]], *ins[3]))]
        raise TypeError("operation not offered: %s" % op)

    def wrapped(self, r):
        if not isinstance(r, self.MT):
            raise TypeError("fallback returned a plain tensor (function is not white-listed)")
        return r


class TfDriver:
    name = "tf"

    def __init__(self):
        import tensorflow as tf
        from pose_format.tensorflow.masked.tensor import MaskedTensor
        from pose_format.tensorflow.masked.tensorflow import MaskedTensorflow
        self.tf, self.MT, self.F = tf, MaskedTensor, MaskedTensorflow

    def plain(self, shape, vals):
        return self.tf.constant(np.array([dec_val(x) for x in vals], dtype=np.float64).reshape(shape))

    def make(self, t):
        return self.MT(self.plain(t["shape"], t["vals"]), self.tf.constant(np.array(t["mask"], dtype=bool).reshape(t["shape"])))

    def snap(self, x):
        return snap_np(x.tensor.numpy(), x.mask.numpy())

    def operand(self, o, env):
        if o[0] == "reg":
            return env[o[1]]
        if o[0] == "plain":
            return self.plain(o[1], o[2])
        return float(o[1])

    def key(self, items):
        return tuple(i[1] if i[0] == "i" else slice(i[1], i[2], i[3]) for i in items)

    def exec(self, ins, env):
        op = ins[0]
        MT, F = self.MT, self.F
        if op == "getitem":
            return [env[ins[1]][self.key(ins[2])]]
        if op == "getlist":
            return [env[ins[1]][list(ins[2])]] if ins[-1] != "gather" else [env[ins[1]].gather(list(ins[2]))]
        if op == "arith":
            a, b = env[ins[2]], self.operand(ins[3], env)
            if ins[1] == "add":
                return [a + b]
            if ins[1] == "sub":
                return [a - b]
            if ins[1] == "mul":
                return [a * b]
            if ins[1] == "div":
                return [a / b]
            if ins[1] == "rdiv":
                return [a.__rtruediv__(b)]
            raise TypeError("operation not offered")
        if op == "sum":
            return [env[ins[1]].sum(axis=ins[2])]
        if op == "permute":
            return [env[ins[1]].transpose(list(ins[2]))]
        if op == "squeeze":
            return [env[ins[1]].squeeze(ins[2])]
        if op == "split":
            a = ins[2] if isinstance(ins[2], int) else list(ins[2])
            return list(env[ins[1]].split(a, ins[3]))
        if op == "reshape":
            return [env[ins[1]].reshape(tuple(ins[2]))]
        if op == "cat":
            return [F.concat([self.operand(o, env) for o in ins[1]], axis=ins[2])]
        if op == "stack":
            return [F.stack([env[r] for r in ins[1]], axis=ins[2])]
        if op == "matmul":
            return [env[ins[1]].matmul(self.plain(ins[2], ins[3]))]
        if op == "mean":
            return [env[ins[1]].mean(axis=ins[2])]
        if op == "var":
            return [env[ins[1]].variance(axis=ins[2])]
        if op == "std":
            return [env[ins[1]].std(axis=ins[2])]
        if op == "zerofill":
            return [MT(env[ins[1]].zero_filled())]
        if op == "unary":
            if ins[2] == "method":
                return [getattr(env[ins[3]], ins[1])()]
            return [self.wrapped(getattr(F, ins[1])(env[ins[3]]))]
        if op == "fallback":
            return [self.wrapped(getattr(F, ins[1])(env[ins[2]], *ins[3]))]
        raise TypeError("operation not offered: %s" % op)

    def wrapped(self, r):
        if not isinstance(r, self.MT):
            raise TypeError("fallback returned a plain tensor (function is not white-listed)")
        return r


def run_impl(driver, case):
    """-> {"regs": [snapshot...], "err": None | [step, exception class]}"""
    env = [driver.make(t) for t in case["inputs"]]
    err = None
    fresh = []
    for k, ins in enumerate(case["prog"]):
        try:
            before = len(env)
            env.extend(driver.exec(ins, env))
            if ins[0] in FRESH_OPS:
                fresh.extend(range(before, len(env)))
        except Exception as e:  # any exception is the one class "raises"
            err = [k, type(e).__name__]
            break
    regs = [driver.snap(x) for x in env]
    out = {"regs": regs, "err": err}
    # aftermath (PyTorch; TensorFlow tensors are immutable): the public in-place methods are applied to the program's INPUTS;
    # every register that an operation COMPUTED (arithmetic, reductions, zero-fill, matrix product, concatenation, statistics,
    # element-wise functions) is a value of its own and must still hold what it held.  Registers produced by indexing /
    # reshaping / permuting may be views of their operand (PyTorch's own convention) and are not looked at.
    if getattr(driver, "name", "") == "torch" and fresh:
        try:
            for x in env[:len(case["inputs"])]:
                x.pow_(2.0)
                x.tensor.add_(1.0)
                x.fix_nan()
        except Exception:
            pass
        # ... and the in-place division by an all-invalid operand (the returned tensor is invalid everywhere; no other tensor is)
        for x in env[:len(case["inputs"])]:
            try:
                other = driver.MT(driver.torch.full_like(x.tensor, 2.0), driver.torch.zeros_like(x.mask))
                x.div(other, in_place=True)
            except Exception:
                pass
        out["alias"] = [i for i in fresh if driver.snap(env[i]) != regs[i]]
    # the public in-place methods themselves, on the inputs: x.pow_(2), x.tensor.add_(1), x.fix_nan() leave v*v + 1 with NaN (and
    # nothing else - infinities stay) replaced by 0, and the validity mask untouched
    if getattr(driver, "name", "") == "torch":
        try:
            n_in = len(case["inputs"])
            probe = [driver.make(t) for t in case["inputs"]]
            for x in probe:
                x.pow_(2.0)
                x.tensor.add_(1.0)
                r = x.fix_nan()
            for i, (t, x) in enumerate(zip(case["inputs"], probe)):
                a = np.array([dec_val(v) for v in t["vals"]], dtype=np.float64).reshape(t["shape"])
                with np.errstate(all="ignore"):
                    e = a * a + 1.0
                e = np.where(np.isnan(e), 0.0, e)
                if snap_np(e, np.array(t["mask"], dtype=bool).reshape(t["shape"])) != driver.snap(x):
                    out["inplace"] = i
                    break
        except Exception as ex:
            out["inplace"] = "raises %s" % type(ex).__name__
    # in-place methods on a VIEW (a slice of the first axis, the transpose) write through to the tensor the view was taken from, as
    # they do for plain torch tensors: after y = x[:1]; y.pow_(2) the first row of x is squared
    if getattr(driver, "name", "") == "torch":
        try:
            for i, t in enumerate(case["inputs"]):
                if not t["shape"] or t["shape"][0] < 1:
                    continue
                x = driver.make(t)
                ref = x.tensor.clone()
                y = x[:1]
                y.pow_(2.0)
                ref[:1] = ref[:1].pow(2.0)
                if not driver.torch.equal(driver.torch.nan_to_num(x.tensor, nan=12345.0), driver.torch.nan_to_num(ref, nan=12345.0)):
                    out["viewinplace"] = i
                    break
        except Exception as ex:
            out["viewinplace"] = "raises %s" % type(ex).__name__
    # matrix product with a BATCHED matrix (leading axes the masked tensor does not have): masked (3, 4) x plain (2, 4, 5) - the
    # framework broadcasts the values to (2, 3, 5); the validity has that shape too, each row valid iff all of its 4 entries are.
    # Once per process and framework.
    if not getattr(driver, "_batched_matmul_done", False):
        driver._batched_matmul_done = True
        try:
            vals = np.arange(12, dtype=np.float64).reshape(3, 4) + 1.0
            msk = np.array([[1, 1, 1, 1], [1, 0, 1, 1], [1, 1, 1, 1]], dtype=bool)
            mat = (np.arange(40, dtype=np.float64).reshape(2, 4, 5) - 7.0)
            if getattr(driver, "name", "") == "torch":
                x = driver.MT(driver.torch.from_numpy(vals), driver.torch.from_numpy(msk))
                r = x.matmul(driver.torch.from_numpy(mat))
                vs, ms, mv = tuple(r.tensor.shape), tuple(r.mask.shape), np.asarray(r.mask)
            else:
                x = driver.MT(driver.tf.constant(vals), driver.tf.constant(msk))
                r = x.matmul(driver.tf.constant(mat))
                vs, ms, mv = tuple(r.tensor.shape), tuple(r.mask.shape), r.mask.numpy()
            want = np.broadcast_to(np.array([True, False, True])[None, :, None], (2, 3, 5))
            if vs != (2, 3, 5) or ms != (2, 3, 5) or not np.array_equal(np.asarray(mv, dtype=bool), want):
                driver._batched_matmul = "value shape %s, validity shape %s%s" % (vs, ms, "" if ms != (2, 3, 5) else ", validity pattern wrong")
        except Exception as ex:
            driver._batched_matmul = None        # a framework that refuses the operand shapes is not at fault here
    if getattr(driver, "_batched_matmul", None):
        out["batchedmatmul"] = driver._batched_matmul      # reported with every case of the run (whichever the oracle looks at first)
    # TensorFlow in GRAPH mode (tf.function with an axis whose extent is unknown when the function is traced - a dataset pipeline):
    # masked (1, 3) <op> plain (5, 3) broadcasts values AND validity to (5, 3); what the static shapes say at trace time
    # ([None, 3] on both sides) decides nothing.  Run once per process.
    if getattr(driver, "name", "") == "tf" and not getattr(driver, "_graph_probe_done", False):
        driver._graph_probe_done = True
        try:
            tf = driver.tf
            sig = [tf.TensorSpec([None, 3], tf.float32), tf.TensorSpec([None, 3], tf.bool), tf.TensorSpec([None, 3], tf.float32)]
            bad = None
            for opname in ("__add__", "__mul__", "__sub__", "__truediv__"):
                @tf.function(input_signature=sig)
                def f(t, m, p, _op=opname):
                    r = getattr(driver.MT(t, m), _op)(p)
                    return r.tensor, r.mask
                t = tf.constant([[1.0, 2.0, 3.0]])
                m = tf.constant([[True, False, True]])
                pl = tf.constant(np.arange(15, dtype=np.float32).reshape(5, 3) + 1.0)
                rt, rm = f(t, m, pl)
                if tuple(rt.shape) != (5, 3) or tuple(rm.shape) != (5, 3) or not np.array_equal(rm.numpy(), np.tile([[True, False, True]], (5, 1))):
                    bad = "%s: value shape %s, validity shape %s" % (opname, tuple(rt.shape), tuple(rm.shape))
                    break
            driver._graphshape = bad
        except Exception as ex:
            driver._graphshape = "raises %s" % type(ex).__name__
    if getattr(driver, "_graphshape", None):
        out["graphshape"] = driver._graphshape
    # TensorFlow statistics in float32 on data whose mean is hundreds of times its spread (pixel coordinates): variance and
    # standard deviation of the valid elements, against a binary64 two-pass reference (a textbook-correct but cancellation-prone
    # formula is off by percents here, float32 rounding of a sound one by 1e-4 at most)
    if getattr(driver, "name", "") == "tf" and case["inputs"]:
        try:
            t = case["inputs"][0]
            a = np.array([dec_val(v) for v in t["vals"]], dtype=np.float64).reshape(t["shape"])
            m = np.array(t["mask"], dtype=bool).reshape(t["shape"])
            if a.ndim >= 1 and a.size and np.isfinite(a[m]).all():
                a = np.where(np.isfinite(a), a, 0.0) + 4096.0
                x = driver.MT(driver.tf.constant(a.astype(np.float32)), driver.tf.constant(m))
                for ax in [None] + list(range(a.ndim)):
                    cnt = m.sum(axis=ax)
                    with np.errstate(all="ignore"):
                        mean = np.where(m, a, 0.0).sum(axis=ax, keepdims=True) / np.maximum(m.sum(axis=ax, keepdims=True), 1)
                        var = (np.where(m, (a - mean) ** 2, 0.0)).sum(axis=ax) / np.maximum(cnt, 1)
                    got_v = np.asarray(x.variance(axis=ax).tensor, dtype=np.float64)
                    got_s = np.asarray(x.std(axis=ax).tensor, dtype=np.float64)
                    ok = np.asarray(cnt) > 0
                    tolv = 2e-3 * np.maximum(var, 1.0)
                    if got_v.shape != np.asarray(var).shape or (np.abs(got_v - var)[ok] > tolv[ok] if np.ndim(var) else (ok and abs(got_v - var) > tolv)).any() \
                            or (np.abs(got_s - np.sqrt(var))[ok] > 2e-3 * np.maximum(np.sqrt(var), 1.0)[ok] if np.ndim(var) else
                                (ok and abs(got_s - np.sqrt(var)) > 2e-3 * max(float(np.sqrt(var)), 1.0))).any():
                        out["stat32"] = ax if ax is not None else "all"
                        break
        except Exception as ex:
            out["stat32"] = "raises %s" % type(ex).__name__
    return out


FRESH_OPS = ("arith", "divm", "sum", "cat", "stack", "matmul", "zerofill", "unary", "mean", "var", "std")
