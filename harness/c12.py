"""C12 - every pose reachable through the API stays well-formed and serialisable.

A case is a start pose (2-D / 3-D NumPy pose, given by header + confidence pattern + data seed) and an
operation sequence.  Sequences are either explicit (`ops`) or drawn adaptively while the implementation
runs (`opseed`, mostly-valid or malformed stream) and then stored in the case, so replays are explicit.
After every step the implementation's state (header, backend, shapes, mask, confidence zero-ness) is
compared with the extracted Coq model's, and the property itself (`Inv`, no exception under the
property's preconditions, final write/read) is evaluated on the real objects alone (the oracle)."""
import io
import json
import os
import random
import subprocess
import sys
import threading
import time
import warnings

import numpy as np
import numpy.ma as ma

import common
import translate_c12

warnings.simplefilter("ignore")
np.seterr(all="ignore")

OPCODES = {"get_components": 0, "remove_components": 1, "bbox": 2, "interpolate": 3, "slice_step": 4, "select_frames": 5,
           "frame_dropout_uniform": 6, "frame_dropout_normal": 7, "flip": 8, "augment2d": 9, "normalize": 10,
           "normalize_distribution": 11, "focus": 12, "copy": 13, "torch": 14, "tensorflow": 15}
BACKENDS = {"NumPyPoseBody": 0, "TorchPoseBody": 1, "TensorflowPoseBody": 2}
VALID_KINDS = ["get_components", "remove_components", "bbox", "interpolate", "slice_step", "select_frames", "frame_dropout_uniform",
               "frame_dropout_normal", "flip", "augment2d", "normalize", "normalize_distribution", "focus", "copy"]


def cps(s):
    return [ord(c) for c in s]


# ------------------------------------------------------------------------------------------------
# observation of a real pose
def arr(x):
    return x.numpy() if hasattr(x, "numpy") and not isinstance(x, np.ndarray) else np.asarray(x)


def backend_of(pose):
    return BACKENDS.get(type(pose.body).__name__, 9)


def masked_of(pose):
    """boolean array, True = missing, in the shape of body.data"""
    b = pose.body
    if backend_of(pose) == 0:
        return np.array(ma.getmaskarray(b.data), dtype=bool)
    return ~arr(b.data.mask).astype(bool)


def values_of(pose):
    b = pose.body
    return np.asarray(b.data.data) if backend_of(pose) == 0 else arr(b.data.tensor)


def conf_of(pose):
    return arr(pose.body.confidence)


def data_shape(pose):
    b = pose.body
    return tuple(int(x) for x in (b.data.shape if backend_of(pose) == 0 else b.data.tensor.shape))


def inv_failure(pose):
    """The invariant of the property statement, evaluated on the real object. -> None or a description."""
    h = pose.header
    try:
        D = h.num_dims()
    except Exception as e:
        return "header.num_dims() raises %s" % type(e).__name__
    T = h.total_points()
    shp = data_shape(pose)
    if len(shp) != 4:
        return "body rank %d" % len(shp)
    if shp[2] != T:
        return "body has %d points, header %d" % (shp[2], T)
    if shp[3] != D:
        return "body has %d dims, header %d" % (shp[3], D)
    c = conf_of(pose)
    if tuple(c.shape) != shp[:3]:
        return "confidence shape %s, data shape %s" % (tuple(c.shape), shp)
    m = masked_of(pose)
    if m.shape != shp:
        return "mask shape %s, data shape %s" % (m.shape, shp)
    want = np.repeat((c == 0)[..., None], D, axis=3)
    if not np.array_equal(m, want):
        extra = int((m & ~want).sum())
        miss = int((~m & want).sum())
        return "mask differs from (confidence == 0): %d cells masked with confidence != 0, %d cells unmasked with confidence 0" % (extra, miss)
    return None


def dump(pose):
    h = pose.header
    m = masked_of(pose)
    c = conf_of(pose)
    return {"be": backend_of(pose),
            "hdr": [[cps(cc.name), [cps(p) for p in cc.points], len(cc.format)] for cc in h.components],
            "mshape": [int(x) for x in m.shape], "mask": [int(x) for x in m.reshape(-1)],
            "cshape": [int(x) for x in c.shape], "cz": [int(x) for x in (c == 0).reshape(-1)],
            "inv": int(inv_failure(pose) is None),
            "inv_strong": int(inv_failure(pose) is None and len({len(cc.format) for cc in h.components}) == 1)}


def build_start(case):
    from pose_format import Pose
    from pose_format.numpy import NumPyPoseBody
    from pose_format.pose_header import PoseHeader, PoseHeaderComponent, PoseHeaderDimensions
    comps = []
    for c in case["comps"]:
        n = len(c["points"])
        limbs = [(i, i + 1) for i in range(n - 1)]
        comps.append(PoseHeaderComponent(c["name"], list(c["points"]), limbs, [(255, 0, 0)] * len(limbs), c["format"]))
    header = PoseHeader(0.2, PoseHeaderDimensions(640, 480, 100), comps)
    F, P, D = case["F"], case["P"], case["D"]
    T = sum(len(c["points"]) for c in case["comps"])
    conf = np.array(case["conf"], dtype=np.float32).reshape(F, P, T)
    rng = np.random.default_rng(case["data_seed"])
    data = (rng.normal(size=(F, P, T, D)) * 20 + 100).astype(np.float32)
    if case.get("const_cols"):                       # some coordinates constant over time: zero deviation
        for (t, d) in case["const_cols"]:
            if t < T and d < D:
                data[:, :, t, d] = 7.0
    lay = case["data_seed"] + F + T               # memory layout / mask form handed to the constructor: a function of the case only
    data, conf = common.vary_layout(data, lay), common.vary_layout(conf, lay // 4)
    if lay % 3 == 1 and D > 0:
        # a masked array whose own mask covers only some of the zero-confidence points: the constructor ORs `confidence == 0` in
        import numpy.ma as ma
        zero = np.repeat((conf == 0)[..., None], D, axis=-1)
        data = ma.masked_array(data, mask=zero & (np.random.RandomState(lay).random_sample(zero.shape) < 0.5))
    return Pose(header, NumPyPoseBody(float(case.get("fps", 24.0)), data, conf))


# ------------------------------------------------------------------------------------------------
# operations: drawing arguments, applying, oracle arguments for the model, the property's preconditions
def draw_op(rng, pose, kind, malformed):
    h = pose.header
    F, P, T, D = data_shape(pose)
    names = [c.name for c in h.components]
    bad = malformed and rng.random() < 0.6
    if kind == "get_components":
        if bad:
            r = rng.random()
            if r < 0.3:
                return {"op": kind, "components": [], "points": None}
            if r < 0.6:
                return {"op": kind, "components": names[:1] + ["nope"], "points": None}
            c = rng.choice(h.components) if h.components else None
            return {"op": kind, "components": names[:1], "points": {names[0]: ["nope"]} if names else None}
        sel = rng.sample(names, rng.randint(1, len(names))) if names else []
        if rng.random() < 0.15 and sel:
            sel = sel + [rng.choice(sel)]
        pts = None
        if rng.random() < 0.55:
            pts = {}
            for c in h.components:
                if c.name in sel and rng.random() < 0.7 and c.points:
                    k = rng.randint(0 if rng.random() < 0.1 else 1, len(c.points))
                    pts[c.name] = rng.sample(list(c.points), k)
                    # the same point requested twice: the result carries it twice (header and body must still agree)
                    if pts[c.name] and rng.random() < 0.2:
                        pts[c.name].insert(rng.randint(0, len(pts[c.name])), rng.choice(pts[c.name]))
        return {"op": kind, "components": sel, "points": pts}
    if kind == "remove_components":
        if bad or len(names) < 2:
            rem = list(names) if (bad and rng.random() < 0.5) else ["nope"]
        else:
            rem = rng.sample(names, rng.randint(1, len(names) - 1))
        pts = None
        if rng.random() < 0.5:
            pts = {}
            for c in h.components:
                if c.name not in rem and c.points and rng.random() < 0.6:
                    pts[c.name] = rng.sample(list(c.points), rng.randint(0, max(0, len(c.points) - 1))) + (["nope"] if rng.random() < 0.2 else [])
        return {"op": kind, "components": rem, "points": pts}
    if kind == "interpolate":
        fps = float(pose.body.fps)
        nf = rng.choice([None, fps, fps * 2, fps * 1.5, fps / 2, 25.0, 30.0])
        if nf is not None and F * abs(nf / fps) > 14:
            nf = fps
        return {"op": kind, "new_fps": nf, "kind": rng.choice(["linear", "quadratic", "cubic"])}
    if kind == "slice_step":
        return {"op": kind, "by": rng.choice([0, -1, -2]) if bad else rng.choice([1, 1, 2, 2, 3])}
    if kind == "select_frames":
        if bad:
            n = rng.randint(0, 3)
            return {"op": kind, "indexes": [rng.choice([-1, -F, -F - 1, F, F + 1, 0]) for _ in range(n)]}
        n = rng.randint(1, F + 1) if F else 0
        ix = [rng.randrange(F) for _ in range(n)]
        if rng.random() < 0.6:
            ix = sorted(set(ix))
        return {"op": kind, "indexes": ix}
    if kind in ("frame_dropout_uniform", "frame_dropout_normal"):
        d = {"op": kind, "seed": rng.randrange(1 << 30)}
        if rng.random() < 0.5:
            if kind.endswith("uniform"):
                lo = rng.choice([0.0, 0.2, 0.5])
                d["args"] = [lo, rng.choice([lo, 0.6, 1.0])]
            else:
                d["args"] = [rng.choice([0.0, 0.3, 0.5, 0.9]), rng.choice([0.0, 0.1, 0.5])]
        return d
    if kind == "flip":
        return {"op": kind, "axis": rng.choice([D, -1, -D - 1, D + 3]) if bad else rng.randrange(max(D, 1))}
    if kind == "augment2d":
        d = {"op": kind, "seed": rng.randrange(1 << 30)}
        if rng.random() < 0.3:
            d["args"] = [rng.choice([0.0, 0.2]), rng.choice([0.0, 0.2]), rng.choice([0.0, 0.2])]
        return d
    if kind == "normalize":
        if bad or T == 0:
            return {"op": kind, "p1": rng.choice([0, T, T + 1]), "p2": rng.choice([0, max(T - 1, 0), T])}
        c = conf_of(pose)
        seen = [t for t in range(T) if (c[:, :, t] != 0).any()]
        pool = seen if (len(seen) >= 2 and rng.random() < 0.85) else list(range(T))
        p1 = rng.choice(pool)
        p2 = rng.choice([t for t in pool if t != p1] or pool)
        return {"op": kind, "p1": p1, "p2": p2}
    if kind == "normalize_distribution":
        return {"op": kind, "axis": rng.choice([[0, 1], [0, 1], [0, 1, 2]])}
    return {"op": kind}


def std_zero(pose, axis):
    """where the deviation the implementation divides by is exactly zero (value fact, read from the live object)"""
    d = pose.body.data
    if backend_of(pose) == 0:
        # on the LIVE array: a copy may be laid out differently in memory, NumPy then sums in another order and a deviation that is
        # exactly 0 for the implementation comes out as 1e-9 here (seen in the thorough tier once arrays arrived in Fortran order)
        sd = d.std(axis=tuple(axis))
        return (np.asarray(ma.getdata(sd)) == 0) & ~np.asarray(ma.getmaskarray(sd))
    sd = d.std(axis=tuple(axis))
    return (arr(sd.tensor) == 0) & arr(sd.mask).astype(bool)


def preconditions(pose, op):
    """(property's preconditions hold, the operation is expected to succeed) judged on the real object before the call.
    The second component is True / False (must raise is never asserted) / None (not judged)."""
    F, P, T, D = data_shape(pose)
    be = backend_of(pose)
    k = op["op"]
    h = pose.header
    names = [c.name for c in h.components]
    c = conf_of(pose)
    if k == "get_components":
        comps = op["components"]
        pts = op["points"] or {}
        okargs = all(n in names for n in comps) and all(p in h.components[names.index(n)].points for n in comps for p in pts.get(n, []))
        pre = len(comps) > 0
        return pre, (True if (pre and okargs) else None)
    if k == "remove_components":
        keep = [n for n in names if n not in op["components"]]
        pre = len(keep) > 0
        return pre, (True if pre else None)
    if k == "bbox":
        return True, (True if (be == 0 and len(names) > 0) else None)
    if k == "interpolate":
        nf = op["new_fps"] if op["new_fps"] is not None else pose.body.fps
        return True, (True if (be == 0 and F >= 2 and P >= 1 and T >= 1 and pose.body.fps > 0 and nf > 0) else None)
    if k == "slice_step":
        return True, (True if op["by"] >= 1 else None)
    if k == "select_frames":
        ok = all(0 <= i < F for i in op["indexes"]) and (be != 2 or len(op["indexes"]) > 0)
        return True, (True if ok else None)
    if k in ("frame_dropout_uniform", "frame_dropout_normal"):
        return True, True
    if k == "flip":
        return True, (True if be == 0 and 0 <= op["axis"] < D else None)
    if k == "augment2d":
        return True, (True if D >= 2 and be != 1 else None)
    if k == "normalize":
        p1, p2 = op["p1"], op["p2"]
        if not (0 <= p1 < T and 0 <= p2 < T):
            return False, None
        pre = bool(((c[:, :, p1] != 0) & (c[:, :, p2] != 0)).any())
        return pre, (True if pre and be in (0, 2) and p1 != p2 else None)
    if k == "normalize_distribution":
        if be == 1:
            return True, None
        zs = std_zero(pose, op["axis"])
        return (not bool(zs.any())), (True if be in (0, 2) else None)
    if k == "focus":
        obs = (~masked_of(pose)).reshape(-1, D).any(axis=0).all() if F * P * T > 0 else False
        return True, (True if (be == 0 and D >= 2 and obs) else None)
    if k == "copy":
        return True, True
    if k in ("torch", "tensorflow"):
        return True, None
    return True, None


def apply_op(pose, op):
    """-> (new pose, oracle arguments read back for the model)"""
    from pose_format import Pose
    from pose_format.pose_header import PoseNormalizationInfo
    k = op["op"]
    extra = {}
    if k == "get_components":
        return pose.get_components(list(op["components"]), None if op["points"] is None else {a: list(b) for a, b in op["points"].items()}), extra
    if k == "remove_components":
        return pose.remove_components(list(op["components"]), None if op["points"] is None else {a: list(b) for a, b in op["points"].items()}), extra
    if k == "bbox":
        return pose.bbox(), extra
    if k == "interpolate":
        q = pose.interpolate(op["new_fps"], op["kind"])
        extra["cz"] = [int(x) for x in (conf_of(q) == 0).reshape(-1)]
        return q, extra
    if k == "slice_step":
        return pose.slice_step(op["by"]), extra
    if k == "select_frames":
        return Pose(pose.header, pose.body.select_frames(list(op["indexes"]))), extra
    if k in ("frame_dropout_uniform", "frame_dropout_normal"):
        random.seed(op["seed"])
        np.random.seed(op["seed"] % (1 << 32))
        # (tf.random.set_seed crashes when torch is loaded in the same process; TF draws are read back, not replayed)
        q, sel = getattr(pose, k)(*op.get("args", []))
        extra["sel"] = [int(x) for x in arr(sel).reshape(-1)] if not isinstance(sel, list) else [int(x) for x in sel]
        return q, extra
    if k == "flip":
        return pose.flip(op["axis"]), extra
    if k == "augment2d":
        np.random.seed(op["seed"] % (1 << 32))
        return pose.augment2d(*op.get("args", [])), extra
    if k == "normalize":
        r = pose.normalize(PoseNormalizationInfo(p1=op["p1"], p2=op["p2"]))
        return (r if r is not None else pose), extra
    if k == "normalize_distribution":
        pose.normalize_distribution(axis=tuple(op["axis"]))
        return pose, extra
    if k == "focus":
        pose.focus()
        return pose, extra
    if k == "copy":
        return pose.copy(), extra
    if k == "torch":
        return pose.torch(), extra
    if k == "tensorflow":
        return pose.tensorflow(), extra
    raise ValueError("unknown op %r" % (k,))


def pre_oracle_args(pose, op):
    """oracle arguments that are facts about the state *before* the call"""
    F, P, T, D = data_shape(pose)
    be = backend_of(pose)
    k = op["op"]
    o = {}
    if k == "interpolate":
        fps = pose.body.fps
        nf = op["new_fps"] if op["new_fps"] is not None else fps
        try:
            o["newF"] = int(round(F * nf / fps))
        except Exception:
            o["newF"] = 0
    elif k == "augment2d":
        o["dtype_ok"] = True
        if be == 1:
            import torch
            o["dtype_ok"] = pose.body.data.tensor.dtype == torch.float32
    elif k == "normalize_distribution":
        if be in (0, 2):
            zs = std_zero(pose, op["axis"])
            o["zs"] = [int(x) for x in zs.reshape(-1)]
        else:
            o["zs"] = [0] * (T * D if len(op["axis"]) == 2 else D)
    elif k == "torch":
        o["layout_ok"] = True
        if be == 0:
            o["layout_ok"] = all(s >= 0 for s in np.asarray(pose.body.data.data).strides) and all(s >= 0 for s in np.asarray(pose.body.confidence).strides)
    return o


def model_op(op, o):
    k = op["op"]
    code = OPCODES[k]

    def pts_arg(d):
        return [] if d is None else [[[cps(a), [cps(p) for p in b]] for a, b in d.items()]]
    if k in ("get_components", "remove_components"):
        return [code, [cps(c) for c in op["components"]], pts_arg(op["points"])]
    if k == "interpolate":
        return [code, o["newF"], o["cz"]]
    if k == "slice_step":
        return [code, op["by"]]
    if k == "select_frames":
        return [code, list(op["indexes"])]
    if k in ("frame_dropout_uniform", "frame_dropout_normal"):
        return [code, o.get("sel", [])]
    if k == "flip":
        return [code, op["axis"]]
    if k == "augment2d":
        return [code, bool(o["dtype_ok"])]
    if k == "normalize":
        return [code, op["p1"], op["p2"]]
    if k == "normalize_distribution":
        return [code, len(op["axis"]) == 2, o["zs"]]
    if k == "torch":
        return [code, bool(o["layout_ok"])]
    return [code]


# ------------------------------------------------------------------------------------------------
def roundtrip_failure(pose):
    """write the pose, read it back, compare up to the float32 conversion"""
    from pose_format import Pose
    from pose_format.pose_header import PoseHeaderCache
    buf = io.BytesIO()
    try:
        pose.write(buf)
    except Exception as e:
        msg = str(e)
        # a loud rejection of values the format cannot represent (header dimensions outside 16 bits after focus() on a huge
        # coordinate range, fps outside float32) is C01's "or a loud failure" clause, not a header/body disagreement
        if (isinstance(e, ValueError) and "must be between 0 and 65535" in msg) or type(e).__name__ in ("error", "OverflowError"):
            return None
        return "Pose.write raises %s: %s" % (type(e).__name__, msg[:120])
    # read back twice: in a fresh memo state, and after an earlier read of the same bytes whose result the caller then edited in
    # place (what a session that loads, edits and saves poses does)
    for state in ("empty", "same"):
        f = _readback_failure(pose, buf.getvalue(), state)
        if f is not None:
            return f if state == "empty" else f + " (after an earlier read of the same bytes whose result was edited in place)"
    return None


def rewrite_failure(pose):
    """the START pose is written once before the operations and once more after them (it is still the caller's object; results
    derived from it may be views of its arrays and may have been edited in place): each file holds what the arrays hold at the
    time of that write - coordinates and confidences, up to the float32 conversion"""
    from pose_format import Pose
    import posegen as pg
    buf = io.BytesIO()
    try:
        pose.write(buf)
        pg.set_memo("empty")
        q = Pose.read(buf.getvalue())
    except Exception:
        return None            # judged elsewhere (C01's loud failures; header objects shared with and edited by derived poses)
    try:
        d32 = np.asarray(values_of(pose), dtype=np.float32)
        c32 = np.asarray(conf_of(pose), dtype=np.float32)
        if values_of(q).shape != d32.shape or conf_of(q).shape != c32.shape:
            return None
        if not np.array_equal(values_of(q), d32, equal_nan=True):
            return "coordinates written are not the coordinates the arrays hold"
        if not np.array_equal(conf_of(q), c32, equal_nan=True):
            return "confidences written are not the confidences the arrays hold"
    except Exception:
        return None
    return None


def _readback_failure(pose, written, state):
    from pose_format import Pose
    import posegen as pg
    pg.set_memo(state, same_bytes=written)
    try:
        q = Pose.read(written)
    except Exception as e:
        return "reading the written bytes raises %s: %s" % (type(e).__name__, str(e)[:120])
    finally:
        pg.set_memo("empty")
    dp = tuple(int(x) for x in (pose.header.dimensions.width, pose.header.dimensions.height, pose.header.dimensions.depth))
    dq = tuple(int(x) for x in (q.header.dimensions.width, q.header.dimensions.height, q.header.dimensions.depth))
    if dp != dq:
        return "header dimensions read back %s, written %s" % (dq, dp)
    fp, fq = np.float32(pose.body.fps), np.float32(q.body.fps)
    if not (fp == fq or (np.isnan(fp) and np.isnan(fq))):
        return "fps read back %r, written %r" % (float(fq), float(fp))
    if data_shape(q) != data_shape(pose):
        return "shape read back %s, written %s" % (data_shape(q), data_shape(pose))
    hp = [(c.name, list(c.points), c.format, [tuple(l) for l in c.limbs]) for c in pose.header.components]
    hq = [(c.name, list(c.points), c.format, [tuple(l) for l in c.limbs]) for c in q.header.components]
    if hp != hq:
        return "header components differ after the round trip"
    d32 = np.asarray(values_of(pose), dtype=np.float32)
    c32 = np.asarray(conf_of(pose), dtype=np.float32)
    if not np.array_equal(values_of(q), d32, equal_nan=True):
        return "coordinates differ after the round trip"
    if not np.array_equal(conf_of(q), c32, equal_nan=True):
        return "confidences differ after the round trip"
    flushed = (conf_of(pose) != 0) & (c32 == 0)
    want = masked_of(pose) | np.repeat(flushed[..., None], d32.shape[3], axis=3)
    if not np.array_equal(masked_of(q), want):
        return "missing-point marks differ after the round trip (%d cells)" % int((masked_of(q) != want).sum())
    return None


def first_conversion(case):
    if case.get("ops") is not None:
        for o in case["ops"]:
            if o["op"] in ("torch", "tensorflow"):
                return o["op"]
        return None
    return case.get("convert")


def run_case(case):
    """Run one case on the implementation: -> {"out", "ops", "trace", "verdict", "stats"} (all JSON)."""
    stats = {}
    pose = build_start(case)
    pose0 = pose
    out = {"start": dump(pose), "steps": []}
    trace = []
    verdict = None
    if backend_of(pose0) == 0:
        rewrite_failure(pose0)          # first write of the start pose (its result is judged by the final write/read of every case)
    stream = case.get("stream", "valid")
    in_quantifier = inv_failure(pose) is None and len({len(c["format"]) for c in case["comps"]}) == 1
    explicit = case.get("ops")
    rng = random.Random(case.get("opseed", 0))
    nops = len(explicit) if explicit is not None else case.get("nops", 0)
    conv_at = rng.randrange(nops) if (explicit is None and case.get("convert") and nops) else -1
    ops_done = []
    for i in range(nops):
        if explicit is not None:
            op = explicit[i]
        else:
            be = backend_of(pose)
            if i == conv_at and be == 0:
                op = {"op": case["convert"]}
            else:
                kinds = VALID_KINDS if be == 0 else ["get_components", "remove_components", "slice_step", "select_frames", "frame_dropout_uniform",
                                                     "frame_dropout_normal", "augment2d", "copy", "normalize", "normalize_distribution",
                                                     "flip", "bbox"]
                op = draw_op(rng, pose, rng.choice(kinds), stream == "malformed")
        ops_done.append(op)
        pre, expect = preconditions(pose, op)
        o = pre_oracle_args(pose, op)
        be_before, shape_before = backend_of(pose), data_shape(pose)
        st = stats.setdefault(op["op"], [0, 0])
        st[1] += 1
        try:
            pose, extra = apply_op(pose, op)
            o.update(extra)
            ok = True
            st[0] += 1
        except Exception as e:
            ok = False
            err = "%s: %s" % (type(e).__name__, str(e)[:100])
        if op["op"] == "interpolate" and "cz" not in o:
            o["cz"] = [0] * (max(o["newF"], 0) * shape_before[1] * shape_before[2])
        trace.append(model_op(op, o))
        if not ok:
            out["steps"].append({"pre": int(pre), "ok": 0})
            if in_quantifier and pre and expect is True and verdict is None:
                verdict = {"what": "%s raises %s although the property's preconditions hold" % (op["op"], err), "step": i,
                           "key": "%s-raises-%dd-%s" % (op["op"], shape_before[3], ["numpy", "torch", "tensorflow"][be_before])}
            break
        out["steps"].append({"pre": int(pre), "ok": 1, "state": dump(pose)})
        if not pre:
            in_quantifier = False
        if in_quantifier and verdict is None:
            f = inv_failure(pose)
            if f is not None:
                verdict = {"what": "after %s (step %d): %s" % (op["op"], i, f), "step": i,
                           "key": "inv-after-%s-%s" % (op["op"], ["numpy", "torch", "tensorflow"][backend_of(pose)])}
        v = values_of(pose)
        mk = masked_of(pose)
        if v.size and not np.isfinite(v[~mk] if mk.shape == v.shape else v).all():
            break                                     # non-finite coordinates: outside the modelled domain (ASSUMPTIONS)
    if in_quantifier and verdict is None and backend_of(pose) == 0 and (not out["steps"] or out["steps"][-1]["ok"]):
        f = roundtrip_failure(pose)
        if f is not None:
            verdict = {"what": "final write/read: " + f, "step": len(trace), "key": "roundtrip-" + (ops_done[-1]["op"] if ops_done else "start")}
    if in_quantifier and verdict is None and backend_of(pose0) == 0 and trace:
        f = rewrite_failure(pose0)
        if f is not None:
            verdict = {"what": "start pose written again after the operations: " + f, "step": len(trace), "key": "rewrite-start-after-" + ops_done[-1]["op"]}
    return {"out": out, "ops": ops_done[:len(trace)], "trace": trace, "verdict": verdict, "stats": stats}


class Worker:
    """A child interpreter for the cases that convert to one framework: Torch and TensorFlow crash when both are
    loaded into one process here, and the parent must stay free of both.  TensorFlow's oneDNN kernels crash or spin
    in this sandbox (tf.matmul with OMP_NUM_THREADS=1), so the child runs with them switched off and under a watchdog."""

    def __init__(self):
        env = dict(os.environ, TF_ENABLE_ONEDNN_OPTS="0")
        self.p = subprocess.Popen([sys.executable, os.path.abspath(__file__), "--worker"], stdin=subprocess.PIPE, stdout=subprocess.PIPE,
                                  stderr=(open(os.environ["C12_WORKER_LOG"], "a") if os.environ.get("C12_WORKER_LOG") else subprocess.DEVNULL),
                                  text=True, bufsize=1 << 20, env=env)

    def run(self, case, timeout=240):
        watchdog = threading.Timer(timeout, self.p.kill)
        watchdog.start()
        try:
            self.p.stdin.write(json.dumps({k: v for k, v in case.items() if not k.startswith("_")}) + "\n")
            self.p.stdin.flush()
            while True:
                line = self.p.stdout.readline()
                if not line:
                    raise RuntimeError("C12 worker died")
                if line.startswith("C12RESULT "):
                    r = json.loads(line[len("C12RESULT "):])
                    if "crash" in r:
                        raise ValueError("C12 worker: " + r["crash"])
                    return r
        except OSError:
            raise RuntimeError("C12 worker died")
        finally:
            watchdog.cancel()

    def close(self):
        try:
            self.p.stdin.close()
            self.p.wait(timeout=20)
        except Exception:
            self.p.kill()


def worker_main():
    import traceback
    for line in sys.stdin:
        try:
            r = run_case(json.loads(line))
        except Exception:
            r = {"crash": traceback.format_exc()[-1500:]}
        sys.stdout.write("C12RESULT " + json.dumps(r) + "\n")
        sys.stdout.flush()


class C12(common.Prop):
    ID = "C12"
    RUNNER = "c12"
    MODEL_FILES = ["base/Tensor.v", "model/C12_Model.v", "model/C12_Run.v", "model/Codec.v"]
    RULE = ("start poses: 1..3 components (uniform XYC or XYZC formats; a separate stream with other dims / mixed formats), F 0..6, P 1..2 (some 0), "
            "random confidence patterns incl. never/once-observed points; operation sequences drawn adaptively from the public API "
            "(selection, removal, bbox, interpolate, slice_step, select_frames, both dropouts, flip, augment2d, normalize, "
            "normalize_distribution, focus, copy, torch(), tensorflow()) with a malformed stream (bad names, steps <= 0, indexes out of "
            "range, unobserved reference points, zero deviations); every case carries at least one operation (all count as non-trivial); "
            "distinct by content hash of start pose + seeds " "Names carry 1-4 byte UTF-8 code points; arrays arrive in C / Fortran / strided layout and partially masked; the final write/read compares dimensions and fps too and is repeated after an edited earlier read of the same bytes.")
    TRUSTED = ["Coq 8.16.1 kernel", "harness/translate_c12.py (fail-closed ast translator)", "extraction: ExtrOcamlBasic only; runner/driver.ml",
               "harness/c12.py observers (mask polarity, errors -> one class)"]
    ASSUMPTIONS = ["numpy.ma / torch / tensorflow kernels propagate masks as transcribed in model/C12_Model.v (sampled by the correspondence)",
                   "coordinates stay finite (no overflow to inf/NaN): NumPy's masked division also masks non-finite quotients",
                   "facts that depend on values enter the model as oracle arguments read from the run: interpolated frame count and confidence "
                   "zero-ness, retained dropout indexes, zero deviations, Torch dtype / NumPy stride compatibility",
                   "byte-level round trip of the written file is C01's theorem; C12 proves that Pose.write's checks pass and that the reader's mask equals the pose's"]

    def translate(self):
        g = dict(translate_c12.c12_gen())
        import translate_py
        g.update(dict(translate_py.codec_gen()))        # writer and reader of the final round trip
        return g

    def translate_outputs(self):
        return ["gen/Gen_C12.v", "gen/Gen_Codec.v"]

    def setup(self):
        import pose_format  # noqa: F401
        self.opstats = {}
        self.workers = {}

    def teardown(self):
        for w in self.workers.values():
            w.close()
        if self.opstats:
            print("C12 operations applied: " + " ".join("%s=%d/%d" % (k, v[0], v[1]) for k, v in sorted(self.opstats.items())))

    # ---- generation
    def gen_start(self, rng, stream):
        if stream == "odd":
            D = rng.choice([1, 4, 2, 3])
        else:
            D = rng.choice([2, 3])
        ncomp = rng.choice([1, 2, 2, 3])
        fmt = "XYZW"[:D] + "C"
        comps = []
        # names in any Unicode text (1-4 byte UTF-8 code points, a combining mark): what is written must read back
        sfx = rng.choice(["", "", "", "\u00e9", "\u624b", "\U0001F600", "o\u0308\u0301", "\u00df\u00e9\u624b"])
        for i in range(ncomp):
            npts = rng.choice([1, 2, 2, 3, 3]) if stream != "odd" else rng.choice([0, 1, 2, 3])
            comps.append({"name": "c%d%s" % (i, sfx), "points": ["c%dp%d%s" % (i, j, sfx) for j in range(npts)], "format": fmt})
        if stream == "mixed" and ncomp >= 2:
            comps[rng.randrange(1, ncomp)]["format"] = "XYZW"[:max(D - 1, 1)] + "C" if D > 1 else "XYC"
            comps[0]["format"] = fmt
            D = max(len(c["format"]) for c in comps) - 1
        T = sum(len(c["points"]) for c in comps)
        F = rng.choice([0, 1, 2, 3, 4, 4, 5, 6])
        P = rng.choice([1, 1, 1, 2, 2, 0]) if stream == "odd" else rng.choice([1, 1, 2])
        dens = rng.choice([0.0, 0.3, 0.6, 0.85, 1.0])
        conf = [rng.choice([1.0, 0.5, 0.25]) if rng.random() < dens else 0.0 for _ in range(F * P * T)]
        case = {"stream": stream, "D": D, "F": F, "P": P, "comps": comps, "conf": conf, "data_seed": rng.randrange(1 << 30), "fps": rng.choice([24.0, 30.0, 12.5])}
        if rng.random() < 0.25 and T:
            case["const_cols"] = [[rng.randrange(T), rng.randrange(D)]]
        return case

    def gen_cases(self, rng, tier):
        n = 2500 if tier == "quick" else 80000
        maxlen = 8 if tier == "quick" else 20
        for i in range(n):
            r = rng.random()
            stream = "valid" if r < 0.62 else "malformed" if r < 0.84 else "odd" if r < 0.94 else "mixed"
            case = self.gen_start(rng, stream)
            case["opseed"] = rng.randrange(1 << 30)
            case["nops"] = rng.randint(1, maxlen)
            case["convert"] = rng.choice([None, None, None, "torch", "tensorflow"]) if (tier == "thorough" or i % 3 == 0) else None
            yield case

    def features(self, case):
        return (case.get("stream", "corpus"), case.get("D"), case.get("convert") or "np",
                "explicit" if "ops" in case else ("len<=4" if case.get("nops", 0) <= 4 else "len<=8" if case.get("nops", 0) <= 8 else "len>8"))

    def nontrivial(self, case):
        return True

    # ---- implementation + oracle (both need the live objects; cases that convert run in a per-framework child)
    def run_impl(self, case):
        conv = first_conversion(case)
        if conv is None:
            r = run_case(case)
        else:
            w = self.workers.get(conv)
            if w is None:
                w = self.workers[conv] = Worker()
            r = None
            for attempt in range(3):                  # a framework crash / hang (not an exception): restart the child and retry
                try:
                    r = w.run(case)
                    break
                except RuntimeError:
                    w.close()
                    time.sleep(2 * attempt)
                    w = self.workers[conv] = Worker()
            if r is None:
                raise RuntimeError("the %s child interpreter died three times on this case" % conv)
        for k, v in r["stats"].items():
            st = self.opstats.setdefault(k, [0, 0])
            st[0] += v[0]
            st[1] += v[1]
        if case.get("ops") is None:
            case["ops"] = r["ops"]
        case["_trace"] = r["trace"]
        case["_verdict"] = r["verdict"]
        return r["out"]

    # ---- model
    def run_model(self, case, runner):
        T = sum(len(c["points"]) for c in case["comps"])
        hdr = [[cps(c["name"]), [cps(p) for p in c["points"]], len(c["format"])] for c in case["comps"]]
        cz = [bool(float(x) == 0.0) for x in case["conf"]]
        rep = runner.ask([1, [hdr, case["F"], case["P"], T, case["D"], cz], case["_trace"]])

        def st(t):
            return {"be": t[0], "hdr": [[list(c[0]), [list(p) for p in c[1]], c[2]] for c in t[1]], "mshape": list(t[2]), "mask": list(t[3]),
                    "cshape": list(t[4]), "cz": list(t[5]), "inv": t[6], "inv_strong": t[7]}
        if rep[0][0] != 1:
            return {"start": None, "steps": []}
        out = {"start": st(rep[0][1]), "steps": []}
        for s in rep[1:]:
            pre, r = s
            out["steps"].append({"pre": pre, "ok": 1, "state": st(r[1])} if r[0] == 1 else {"pre": pre, "ok": 0})
        return out

    def compare(self, case, impl_out, model_out):
        if impl_out["start"] != model_out["start"]:
            return "start state differs"
        a, b = impl_out["steps"], model_out["steps"]
        for i in range(max(len(a), len(b))):
            if i >= len(a) or i >= len(b):
                return "step %d: implementation ran %d steps, model %d" % (i, len(a), len(b))
            opn = case["ops"][i]["op"] if i < len(case.get("ops", [])) else "?"
            if a[i]["ok"] != b[i]["ok"]:
                return "step %d (%s): implementation %s, model %s" % (i, opn, "ok" if a[i]["ok"] else "raises", "ok" if b[i]["ok"] else "raises")
            if a[i]["pre"] != b[i]["pre"]:
                return "step %d (%s): precondition judged %d by the harness, %d by the model" % (i, opn, a[i]["pre"], b[i]["pre"])
            if a[i]["ok"] and a[i]["state"] != b[i]["state"]:
                diff = [k for k in a[i]["state"] if a[i]["state"][k] != b[i]["state"].get(k)]
                return "step %d (%s): state differs in %s" % (i, opn, diff)
        return None

    def oracle(self, case):
        return case.get("_verdict")

    def classify(self, case, failure):
        return failure.get("key", "unclassified")


PROP = C12

if __name__ == "__main__" and sys.argv[1:] == ["--worker"]:
    worker_main()
