"""Regenerate every coq/gen/*.v from /repo (used by setup.sh; each check regenerates its own too)."""
import glob
import importlib
import os
import sys

sys.path.insert(0, os.path.dirname(os.path.abspath(__file__)))
import build  # noqa: E402
import common  # noqa: E402

failed = False
only = [a.lower() for a in sys.argv[1:]]
for f in sorted(glob.glob(os.path.join(os.path.dirname(os.path.abspath(__file__)), "c[0-9][0-9].py"))):
    name = os.path.basename(f)[:-3]
    if only and name not in only:
        continue
    try:
        prop = importlib.import_module(name).PROP()
        for rel, text in prop.translate().items():
            build.write_if_changed(os.path.join(build.COQ, "gen", rel), text)
    except common.TranslateError as e:
        print("translator failed for %s: %s" % (name, e))
        failed = True
try:
    import translate_classes
    for rel, text in translate_classes.gen().items():
        build.write_if_changed(os.path.join(build.COQ, "gen", rel), text)
except common.TranslateError as e:
    print("translator failed for the class table: %s" % e)
# a translator failure does not stop the build: the affected check reports the broken tie itself
sys.exit(0)
