"""C14 - fail-closed translator of NumPyPoseBody.interpolate (numpy/pose_body.py) -> coq/gen/Gen_C14.v.

Regenerated on every run from the current source:
  * `interpolate_statements`  the whole function as a flat, pre-order list of statements (compound statements
                              contribute their header only), comments / docstring / layout removed;
  * the decisions the hand-written model (coq/model/C14_Interp.v, C14_Count.v) was written from, decoded to
    structured constants: the frame-count expression, the grid end points, the mask rule, the two index
    searches (comparison and default), the kind thresholds, the padding order, the single-frame guard;
  * the constructor's mask rule (`mask = confidence == 0`).
coq/proofs/C14_GenTie.v states that each of them equals the literal the model was written from, so an edit
of the function breaks a proof obligation.  Any shape that is not recognised raises TranslateError."""
import ast

from common import TranslateError
import translate_py as tp

REL = "numpy/pose_body.py"


def fail(msg):
    raise TranslateError("translate_c14: " + msg)


def flat(stmts, out, depth=0):
    for st in stmts:
        pre = "%d:" % depth
        if isinstance(st, ast.Expr) and isinstance(st.value, ast.Constant) and isinstance(st.value.value, str):
            continue  # docstring
        if isinstance(st, ast.If):
            out.append(pre + "if " + ast.unparse(st.test))
            flat(st.body, out, depth + 1)
            if st.orelse:
                out.append(pre + "else")
                flat(st.orelse, out, depth + 1)
        elif isinstance(st, ast.For):
            if st.orelse:
                fail("for-else")
            out.append(pre + "for " + ast.unparse(st.target) + " in " + ast.unparse(st.iter))
            flat(st.body, out, depth + 1)
        elif isinstance(st, ast.Try):
            if st.orelse or st.finalbody:
                fail("try with else/finally")
            out.append(pre + "try")
            flat(st.body, out, depth + 1)
            for h in st.handlers:
                out.append(pre + "except " + (ast.unparse(h.type) if h.type else ""))
                flat(h.body, out, depth + 1)
        elif isinstance(st, (ast.Assign, ast.Return, ast.Raise, ast.Expr, ast.ImportFrom, ast.Import, ast.AugAssign)):
            out.append(pre + ast.unparse(st))
        else:
            fail("unrecognised statement kind %s: %s" % (type(st).__name__, ast.unparse(st)[:80]))
    return out


def assigns(f, name):
    r = [n for n in ast.walk(f) if isinstance(n, ast.Assign) and len(n.targets) == 1 and ast.unparse(n.targets[0]) == name]
    if len(r) != 1:
        fail("expected exactly one assignment to %s, found %d" % (name, len(r)))
    return r[0].value


CMP = {ast.Eq: "CEq", ast.NotEq: "CNe", ast.Lt: "CLt", ast.LtE: "CLe", ast.Gt: "CGt", ast.GtE: "CGe"}


def compare(e, what):
    if not (isinstance(e, ast.Compare) and len(e.ops) == 1 and type(e.ops[0]) in CMP):
        fail("%s is not a single comparison: %s" % (what, ast.unparse(e)))
    return ast.unparse(e.left), CMP[type(e.ops[0])], ast.unparse(e.comparators[0])


def argwhere_cmp(e, what, rhs):
    """np.argwhere(new_steps <op> rhs) -> op"""
    if not (isinstance(e, ast.Call) and ast.unparse(e.func) == "np.argwhere" and len(e.args) == 1 and not e.keywords):
        fail("%s is not np.argwhere(<comparison>): %s" % (what, ast.unparse(e)))
    l, op, r = compare(e.args[0], what)
    if l != "new_steps" or r != rhs:
        fail("%s compares %s with %s (expected new_steps with %s)" % (what, l, r, rhs))
    return op


def index_default(e, what, where_name):
    """<where>[0][0] if len(<where>) > 0 else <default>  ->  'DZero' | 'DLen'"""
    if not isinstance(e, ast.IfExp):
        fail("%s is not a conditional expression" % what)
    if ast.unparse(e.body) != "%s[0][0]" % where_name or ast.unparse(e.test) != "len(%s) > 0" % where_name:
        fail("%s: unrecognised selection %s" % (what, ast.unparse(e)))
    d = ast.unparse(e.orelse)
    if d == "0":
        return "DZero"
    if d == "len(new_steps)":
        return "DLen"
    fail("%s: unrecognised default %s" % (what, d))


def count_expr(e):
    """round(_frames * new_fps / self.fps) -> prefix term"""
    def term(x):
        if isinstance(x, ast.BinOp) and isinstance(x.op, (ast.Mult, ast.Div, ast.FloorDiv, ast.Add, ast.Sub)):
            nm = {ast.Mult: "EMul", ast.Div: "EDiv", ast.FloorDiv: "EFloorDiv", ast.Add: "EAdd", ast.Sub: "ESub"}[type(x.op)]
            return "(%s %s %s)" % (nm, term(x.left), term(x.right))
        s = ast.unparse(x)
        if s == "_frames":
            return "EFrames"
        if s == "new_fps":
            return "ENew"
        if s == "self.fps":
            return "EOld"
        fail("frame count: unrecognised operand %s" % s)
    if not (isinstance(e, ast.Call) and isinstance(e.func, ast.Name) and len(e.args) == 1 and not e.keywords):
        fail("frame count is not <fn>(<expr>): %s" % ast.unparse(e))
    fnm = {"round": "ERound", "int": "EInt", "math.floor": "EFloor", "math.ceil": "ECeil"}.get(e.func.id)
    if fnm is None:
        fail("frame count: unrecognised rounding function %s" % e.func.id)
    return "(%s %s)" % (fnm, term(e.args[0]))


def linspace(e, what, count):
    if not (isinstance(e, ast.Call) and ast.unparse(e.func) == "np.linspace" and len(e.args) == 3 and not e.keywords
            and all(isinstance(a, ast.Constant) and isinstance(a.value, int) for a in e.args[:2]) and ast.unparse(e.args[2]) == count):
        fail("%s is not np.linspace(<int>, <int>, %s): %s" % (what, count, ast.unparse(e)))
    return e.args[0].value, e.args[1].value


def kind_rule(e):
    """kind if len(partial_steps) > A else 'quadratic' if len(partial_steps) > B and kind == 'cubic' else 'linear'"""
    if not (isinstance(e, ast.IfExp) and isinstance(e.orelse, ast.IfExp)):
        fail("this_kind is not a two-level conditional: %s" % ast.unparse(e))
    l1, op1, a = compare(e.test, "this_kind outer test")
    inner = e.orelse
    if not (isinstance(inner.test, ast.BoolOp) and isinstance(inner.test.op, ast.And) and len(inner.test.values) == 2):
        fail("this_kind inner test is not a conjunction")
    l2, op2, b = compare(inner.test.values[0], "this_kind inner count test")
    l3, op3, c = compare(inner.test.values[1], "this_kind inner kind test")
    if (l1, op1, l2, op2, l3, op3) != ("len(partial_steps)", "CGt", "len(partial_steps)", "CGt", "kind", "CEq"):
        fail("this_kind: unrecognised tests %s" % ast.unparse(e))
    if ast.unparse(e.body) != "kind":
        fail("this_kind: first alternative is not `kind`")
    vals = []
    for x in (inner.body, inner.orelse):
        if not (isinstance(x, ast.Constant) and isinstance(x.value, str)):
            fail("this_kind: alternative is not a string literal")
        vals.append(x.value)
    if not (a.isdigit() and b.isdigit()):
        fail("this_kind thresholds are not literals")
    return int(a), int(b), ast.literal_eval(c), vals[0], vals[1]


def guard(f, name, what):
    """the If statements whose test mentions only <name> compared to a literal -> (cmp, literal)"""
    r = []
    for n in ast.walk(f):
        if isinstance(n, ast.If) and isinstance(n.test, ast.Compare) and ast.unparse(n.test.left) == name:
            r.append(n)
    if len(r) != 1:
        fail("%s: expected exactly one `if %s <op> ...`, found %d" % (what, name, len(r)))
    l, op, rhs = compare(r[0].test, what)
    return r[0], op, rhs


def gen():
    t = tp.parse(REL)
    c = tp.cls(t, "NumPyPoseBody")
    f = tp.fn(c, "interpolate")
    ini = tp.fn(c, "__init__")
    args = [a.arg for a in f.args.args]
    defaults = [ast.unparse(d) for d in f.args.defaults]
    if args != ["self", "new_fps", "kind"] or defaults != ["None", "'cubic'"]:
        fail("signature changed: %s %s" % (args, defaults))
    stmts = flat(tp.body_wo_doc(f), [])

    # single-frame guard
    g, gop, grhs = guard(f, "_frames", "single-frame guard")
    if not (len(g.body) == 1 and isinstance(g.body[0], ast.Raise) and not g.orelse):
        fail("single-frame guard does not raise")
    # frame count, grids
    cexpr = count_expr(assigns(f, "_new_frames"))
    g_old = linspace(assigns(f, "steps"), "steps", "_frames")
    g_new = linspace(assigns(f, "new_steps"), "new_steps", "_new_frames")
    if assigns(f, "_frames") is None or ast.unparse(assigns(f, "_frames")) != "self.data.shape[0]":
        fail("_frames is not self.data.shape[0]")
    # mask rule of the confidence column
    mc = assigns(f, "masked_confidence")
    if not (isinstance(mc, ast.Call) and ast.unparse(mc.func) == "ma.array" and len(mc.args) == 1 and ast.unparse(mc.args[0]) == "self.confidence"
            and len(mc.keywords) == 1 and mc.keywords[0].arg == "mask"):
        fail("masked_confidence is not ma.array(self.confidence, mask=...)")
    ml, mop, mr = compare(mc.keywords[0].value, "mask rule")
    if ml != "self.confidence":
        fail("mask rule is not about self.confidence")
    if ast.unparse(assigns(f, "mask")) != "frames.transpose()[-1].mask":
        fail("track mask is not taken from the confidence column")
    if ast.unparse(assigns(f, "points")) != "ma.concatenate([transposed, confidence], axis=3)":
        fail("points is not data with confidence appended as the last coordinate")
    # kind
    ka, kb, kc, kq, kl = kind_rule(assigns(f, "this_kind"))
    # interp1d call: the lambda for one observation is the other assignment to f
    fa = [n for n in ast.walk(f) if isinstance(n, ast.Assign) and ast.unparse(n.targets[0]) == "f"]
    if len(fa) != 2:
        fail("expected two assignments to f")
    calls = [ast.unparse(n.value) for n in fa]
    if "lambda l: partial_frames" not in calls:
        fail("single-observation interpolant changed: %s" % calls)
    other = [n.value for n in fa if ast.unparse(n.value) != "lambda l: partial_frames"][0]
    if not (isinstance(other, ast.Call) and ast.unparse(other.func) == "interp1d"):
        fail("f is not built by interp1d")
    i1d = [ast.unparse(a) for a in other.args] + ["%s=%s" % (k.arg, ast.unparse(k.value)) for k in other.keywords]
    # index searches
    fcmp = argwhere_cmp(assigns(f, "first_step_where"), "first_step_where", "first_step")
    lcmp = argwhere_cmp(assigns(f, "last_step_where"), "last_step_where", "last_step")
    fdef = index_default(assigns(f, "first_step_index"), "first_step_index", "first_step_where")
    ldef = index_default(assigns(f, "last_step_index"), "last_step_index", "last_step_where")
    if ast.unparse(assigns(f, "first_step")) != "partial_steps[0]" or ast.unparse(assigns(f, "last_step")) != "partial_steps[-1]":
        fail("first_step / last_step are not the first / last observed step")
    if ast.unparse(assigns(f, "frame_data")) != "f(new_steps[first_step_index:last_step_index])":
        fail("frame_data is not f(new_steps[first:last])")
    # full-range shortcut
    fr = [n for n in ast.walk(f) if isinstance(n, ast.If) and isinstance(n.test, ast.BoolOp)]
    if len(fr) != 1 or not isinstance(fr[0].test.op, ast.And) or len(fr[0].test.values) != 2:
        fail("full-range test not found exactly once")
    a1 = compare(fr[0].test.values[0], "full-range test")
    a2 = compare(fr[0].test.values[1], "full-range test")
    # padding
    cat = [n for n in ast.walk(f) if isinstance(n, ast.Call) and ast.unparse(n.func) == "np.concatenate"]
    if len(cat) != 1 or len(cat[0].args) != 1 or not isinstance(cat[0].args[0], ast.List):
        fail("np.concatenate([...]) not found exactly once")
    pad = [ast.unparse(x) for x in cat[0].args[0].elts]
    # return
    ret = [n for n in ast.walk(f) if isinstance(n, ast.Return)]
    if len(ret) != 1:
        fail("expected one return")
    # constructor
    im = assigns(ini, "mask")
    il, iop, ir = compare(im, "constructor mask rule")

    def s(x):
        return tp.cstr(x)

    out = [tp.HEADER,
           "Inductive cmp := CEq | CNe | CLt | CLe | CGt | CGe.",
           "Inductive idx_default := DZero | DLen.",
           "Inductive cexpr := EFrames | ENew | EOld | EMul (a b : cexpr) | EDiv (a b : cexpr) | EFloorDiv (a b : cexpr)",
           "  | EAdd (a b : cexpr) | ESub (a b : cexpr) | ERound (a : cexpr) | EInt (a : cexpr) | EFloor (a : cexpr) | ECeil (a : cexpr).",
           "",
           "(* numpy/pose_body.py NumPyPoseBody.interpolate *)",
           "Definition single_frame_guard : cmp * string := (%s, %s)." % (gop, s(grhs)),
           "Definition frame_count_expr : cexpr := %s." % cexpr,
           "Definition grid_old : Z * Z := (%d, %d)%%Z." % g_old,
           "Definition grid_new : Z * Z := (%d, %d)%%Z." % g_new,
           "Definition confidence_mask_rule : cmp * string := (%s, %s)." % (mop, s(mr)),
           "Definition kind_rule : nat * nat * string * string * string := (%d, %d, %s, %s, %s)." % (ka, kb, s(kc), s(kq), s(kl)),
           "Definition interp1d_arguments : list string := %s." % tp.clist([s(x) for x in i1d]),
           "Definition full_range_test : (string * cmp * string) * (string * cmp * string) := ((%s, %s, %s), (%s, %s, %s))."
           % (s(a1[0]), a1[1], s(a1[2]), s(a2[0]), a2[1], s(a2[2])),
           "Definition first_search : cmp * idx_default := (%s, %s)." % (fcmp, fdef),
           "Definition last_search : cmp * idx_default := (%s, %s)." % (lcmp, ldef),
           "Definition padding : list string := %s." % tp.clist([s(x) for x in pad]),
           "Definition result_expr : string := %s." % s(ast.unparse(ret[0].value)),
           "(* numpy/pose_body.py NumPyPoseBody.__init__ *)",
           "Definition constructor_mask_rule : string * cmp * string := (%s, %s, %s)." % (s(il), iop, s(ir)),
           "Definition constructor_statements : list string :=\n  %s." % tp.clist([s(x) for x in flat(tp.body_wo_doc(ini), [])]),
           "",
           "Definition interpolate_statements : list string :=\n  %s." % tp.clist([s(x) for x in stmts]),
           ""]
    return {"Gen_C14.v": "\n".join(out)}


if __name__ == "__main__":
    for k, v in gen().items():
        print(v)
