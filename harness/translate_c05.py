"""C05 translator (fail-closed): src/js/pose_format/src/parser.ts -> coq/gen/Gen_C05.v, and the type-stripped parser.js.

parser.ts is tokenised (comments dropped) and split into its top-level items; every item must be one of the known
forms.  Regenerated on every run:
  * js_little                       - newParser(): `new Parser().endianess("little")`
  * js_limb / js_color / js_str / js_component / js_header : schema
                                    - the fluent binary-parser chains of componentHeaderParser / getHeaderParser, with the
                                      `type:` references resolved (terms of C05_JsParser.schema)
  * js_info_v01 / js_info_v02 : N -> schema, js_info_size_v01 / _v02
                                    - the info parser of parseBodyV0_1, by symbolic execution of its if / else-if chain
  * js_data_len, js_conf_len, js_data_start, js_offset, js_place, js_data_index
                                    - the index expressions of parseBodyV0_1 / frameRepresentation as Gallina arithmetic
  * js_round_mul, js_round_div, js_switch
                                    - the rounding constants and the case table of parsePose
  * src_<function> : string         - the normalised token text of every function body (the hand-written parts of the model
                                      were transcribed from exactly these; tie lemmas in coq/proofs/C05_GenTie.v)
Anything of an unrecognised shape raises TranslateError (a broken tie)."""
import hashlib
import os
import re
import subprocess

from common import REPO, ROOT, TranslateError

TS = os.path.join(REPO, "src", "js", "pose_format", "src", "parser.ts")
INDEX_TS = os.path.join(REPO, "src", "js", "pose_format", "src", "index.ts")


def fail(msg):
    raise TranslateError("translate_c05: " + msg)


# ------------------------------------------------------------------------------------------------ tokens
TOKEN = re.compile(r"""
    (?P<ws>\s+)
  | (?P<lc>//[^\n]*)
  | (?P<bc>/\*.*?\*/)
  | (?P<str>"(?:[^"\\\n]|\\.)*"|'(?:[^'\\\n]|\\.)*'|`(?:[^`\\]|\\.)*`)
  | (?P<num>\d+(?:\.\d+)?)
  | (?P<id>[A-Za-z_$][\w$]*)
  | (?P<op>===|!==|=>|\.\.\.|\+\+|\+=|<=|>=|==|!=|&&|\|\||[{}()\[\];,.:<>=+\-*/!?])
""", re.X | re.S)


class Tok:
    def __init__(self, kind, text):
        self.kind, self.text = kind, text

    def __repr__(self):
        return self.text


def tokenize(src):
    out, pos = [], 0
    while pos < len(src):
        m = TOKEN.match(src, pos)
        if not m:
            fail("cannot tokenise parser.ts at offset %d: %r" % (pos, src[pos:pos + 30]))
        pos = m.end()
        k = m.lastgroup
        if k in ("ws", "lc", "bc"):
            continue
        t = m.group()
        if k == "str" and t[0] == "'":
            if '"' in t:
                fail("string literal with embedded quote: " + t)
            t = '"' + t[1:-1] + '"'
        out.append(Tok(k, t))
    return out


def text(toks):
    return " ".join(t.text for t in toks)


def match_close(toks, i):
    """index of the bracket closing toks[i]"""
    pairs = {"(": ")", "{": "}", "[": "]"}
    op = toks[i].text
    if op not in pairs:
        fail("expected a bracket at token %d (%s)" % (i, op))
    depth = 0
    for j in range(i, len(toks)):
        t = toks[j].text
        if toks[j].kind == "op" and t in pairs:
            depth += 1
        elif toks[j].kind == "op" and t in pairs.values():
            depth -= 1
            if depth == 0:
                if t != pairs[op]:
                    fail("mismatched bracket")
                return j
    fail("unclosed bracket")


def split_top(toks):
    """top-level items -> (imports, functions {name: (params, body)}, order, consts [(name, toks)])"""
    i, imports, funcs, order, consts = 0, [], {}, [], []
    while i < len(toks):
        t = toks[i].text
        if t == "import":
            j = i
            while toks[j].text != ";":
                j += 1
            imports.append(text(toks[i:j]))
            i = j + 1
        elif t in ("function", "export"):
            exported = t == "export"
            if exported:
                i += 1
                if toks[i].text != "function":
                    fail("unsupported export")
            name = toks[i + 1]
            if name.kind != "id" or toks[i + 2].text != "(":
                fail("unsupported function head")
            pe = match_close(toks, i + 2)
            params = toks[i + 3:pe]
            j = pe + 1
            while toks[j].text != "{":          # return type annotation
                j += 1
            rtype = toks[pe + 1:j]
            if rtype and (rtype[0].text != ":" or len(rtype) > 2):
                fail("unsupported return type of %s" % name.text)
            be = match_close(toks, j)
            if name.text in funcs:
                fail("function %s defined twice" % name.text)
            funcs[name.text] = (params, toks[j + 1:be], exported)
            order.append(name.text)
            i = be + 1
        elif t == "const":
            j = i
            while toks[j].text != ";":
                j += 1
            consts.append((toks[i + 1].text, toks[i + 2:j]))
            i = j + 1
        else:
            fail("unexpected top-level token %r" % t)
    return imports, funcs, order, consts


def statements(body):
    """split a function body into top-level statements (token lists, without the closing ';')"""
    out, i, start = [], 0, 0
    while i < len(body):
        t = body[i]
        if t.kind == "op" and t.text in "({[":
            i = match_close(body, i)
            # a block statement ends at its closing brace when followed by a new statement keyword
            if t.text == "{" and body[start].text in ("if", "for", "function", "switch") and (
                    i + 1 >= len(body) or body[i + 1].text != "else"):
                out.append(body[start:i + 1])
                start = i + 1
        elif t.kind == "op" and t.text == ";":
            out.append(body[start:i])
            start = i + 1
        i += 1
    if start < len(body):
        out.append(body[start:])
    return [s for s in out if s]


# ------------------------------------------------------------------------------------------------ Gallina emission
def cstr(s):
    return '"' + s.replace('"', '""') + '"'


def kq(s):
    if not re.fullmatch(r"[A-Za-z_][A-Za-z0-9_]*", s):
        fail("field name %r is not a plain identifier" % s)
    return '(K "%s")' % s


def strlit(tok):
    if tok.kind != "str" or tok.text[0] != '"' or "\\" in tok.text:
        fail("expected a plain string literal, got %s" % tok.text)
    return tok.text[1:-1]


FIELD = {"uint16": "KU16", "int16": "KI16", "uint32": "KU32", "floatle": "KF32"}


def parse_object(toks):
    """{ key: value, ... } -> {key: token list}"""
    if not toks or toks[0].text != "{" or match_close(toks, 0) != len(toks) - 1:
        fail("expected an object literal: " + text(toks))
    inner, out, i = toks[1:-1], {}, 0
    while i < len(inner):
        k = inner[i]
        key = strlit(k) if k.kind == "str" else k.text
        if k.kind not in ("id", "str") or inner[i + 1].text != ":":
            fail("bad object literal: " + text(toks))
        j, depth = i + 2, 0
        while j < len(inner) and not (depth == 0 and inner[j].text == ","):
            if inner[j].kind == "op" and inner[j].text in "({[":
                depth += 1
            elif inner[j].kind == "op" and inner[j].text in ")}]":
                depth -= 1
            j += 1
        if key in out:
            fail("duplicate option " + key)
        out[key] = inner[i + 2:j]
        i = j + 1
    return out


def split_args(toks):
    out, depth, cur = [], 0, []
    for t in toks:
        if t.kind == "op" and t.text in "({[":
            depth += 1
        elif t.kind == "op" and t.text in ")}]":
            depth -= 1
        if depth == 0 and t.text == "," and t.kind == "op":
            out.append(cur)
            cur = []
        else:
            cur.append(t)
    if cur:
        out.append(cur)           # a trailing comma adds no argument
    return out


PLUCK = re.compile(r'^\( (\w+) : any \) => \1 \. map \( \( (\w+) : any \) => \2 \. (\w+) \)$')


def chain_calls(toks, env, seek_sym=None):
    """`. m ( args ) . m ( args ) ...` -> list of constructor applications (strings with a hole for the rest)"""
    steps, i = [], 0
    while i < len(toks):
        if toks[i].text != "." or toks[i + 1].kind != "id" or toks[i + 2].text != "(":
            fail("not a fluent call chain: " + text(toks[i:i + 6]))
        m = toks[i + 1].text
        ce = match_close(toks, i + 2)
        args = split_args(toks[i + 3:ce])
        if m in FIELD:
            if len(args) != 1 or len(args[0]) != 1:
                fail("%s takes one name" % m)
            steps.append("Fld %s %s" % (FIELD[m], kq(strlit(args[0][0]))))
        elif m == "string":
            if len(args) != 2 or len(args[0]) != 1:
                fail("string(name, options)")
            o = parse_object(args[1])
            if set(o) != {"length"} or len(o["length"]) != 1:
                fail("string options must be exactly {length: \"field\"}")
            steps.append("Str %s (LenVar %s)" % (kq(strlit(args[0][0])), kq(strlit(o["length"][0]))))
        elif m == "array":
            if len(args) != 2 or len(args[0]) != 1:
                fail("array(name, options)")
            o = parse_object(args[1])
            if not {"type", "length"} <= set(o) or not set(o) <= {"type", "length", "formatter"}:
                fail("array options: " + text(args[1]))
            if len(o["type"]) != 1 or o["type"][0].text not in env:
                fail("array type must be a parser defined before: " + text(o["type"]))
            if len(o["length"]) != 1:
                fail("array length must be a field name")
            f = "FmtNone"
            if "formatter" in o:
                mm = PLUCK.match(text(o["formatter"]))
                if not mm:
                    fail("unrecognised formatter: " + text(o["formatter"]))
                f = "(FmtPluck %s)" % kq(mm.group(3))
            steps.append("Arr %s %s (LenVar %s) %s" % (kq(strlit(args[0][0])), env[o["type"][0].text], kq(strlit(o["length"][0])), f))
        elif m == "saveOffset":
            if len(args) != 1 or len(args[0]) != 1:
                fail("saveOffset(name)")
            steps.append("SaveOffset %s" % kq(strlit(args[0][0])))
        elif m == "seek":
            if seek_sym is None or len(args) != 1 or text(args[0]) != seek_sym[0]:
                fail("seek argument: " + text(toks[i:ce + 1]))
            steps.append("Seek %s" % seek_sym[1])
        else:
            fail("binary-parser method %s is not modelled" % m)
        i = ce + 1
    return steps


def close_chain(steps):
    s = "Done"
    for st in reversed(steps):
        s = "(%s %s)" % (st, s)
    return s


def new_parser_chain(toks, env, seek_sym=None):
    if text(toks[:3]) != "newParser ( )":
        fail("chain must start with newParser(): " + text(toks[:6]))
    return chain_calls(toks[3:], env, seek_sym)


# ------------------------------------------------------------------------------------------------ expressions
def parse_expr(toks, vocab):
    """+, * and parentheses over numbers and (dotted) names -> Gallina Z expression"""
    pos = [0]

    def peek():
        return toks[pos[0]].text if pos[0] < len(toks) else None

    def atom():
        t = toks[pos[0]] if pos[0] < len(toks) else None
        if t is None:
            fail("truncated expression " + text(toks))
        if t.text == "(":
            pos[0] += 1
            e = add()
            if peek() != ")":
                fail("missing ) in " + text(toks))
            pos[0] += 1
            return "(" + e + ")"
        if t.kind == "num":
            if "." in t.text:
                fail("non-integer literal in index expression")
            pos[0] += 1
            return t.text
        if t.kind == "id":
            name = t.text
            pos[0] += 1
            while peek() == "." and pos[0] + 1 < len(toks) and toks[pos[0] + 1].kind == "id":
                name += "." + toks[pos[0] + 1].text
                pos[0] += 2
            if name not in vocab:
                fail("unknown name %s in expression %s" % (name, text(toks)))
            return vocab[name]
        fail("unsupported token %s in expression %s" % (t.text, text(toks)))

    def mul():
        e = atom()
        while peek() == "*":
            pos[0] += 1
            e = "%s * %s" % (e, atom())
        return e

    def add():
        e = mul()
        while peek() == "+":
            pos[0] += 1
            e = "%s + %s" % (e, mul())
        return e
    e = add()
    if pos[0] != len(toks):
        fail("trailing tokens in expression " + text(toks))
    return e


def find_stmt(stmts, prefix):
    hits = [s for s in stmts if text(s).startswith(prefix)]
    if len(hits) != 1:
        fail("expected exactly one statement starting with %r, found %d" % (prefix, len(hits)))
    return hits[0]


def all_statements(body):
    """statements at every nesting depth (blocks of if / for / function / arrow bodies are opened)"""
    out = []
    for s in statements(body):
        out.append(s)
        i = 0
        while i < len(s):
            t = s[i]
            if t.kind == "op" and t.text == "{":
                j = match_close(s, i)
                prev = s[i - 1].text if i else ""
                if prev in (")", "=>", "else"):
                    out.extend(all_statements(s[i + 1:j]))
                i = j
            elif t.kind == "op" and t.text in "([":
                j = match_close(s, i)
                out.extend(x for x in all_statements(s[i + 1:j]) if len(x) < j - i - 1)
                i = j
            i += 1
    return out


# ------------------------------------------------------------------------------------------------ main
EXPECTED_FUNCS = ["newParser", "componentHeaderParser", "getHeaderParser", "getBodyParserV0_0", "parseBodyV0_0", "parseBodyV0_1", "parsePose"]


def translate_text(src):
    toks = tokenize(src)
    imports, funcs, order, consts = split_top(toks)
    if order != EXPECTED_FUNCS:
        fail("functions of parser.ts are %s, expected %s" % (order, EXPECTED_FUNCS))
    if not any(re.fullmatch(r'import \{ Parser \} from "binary-parser"', i) for i in imports):
        fail("Parser is not imported from binary-parser")
    if len(consts) != 1 or consts[0][0] != "headerParser" or text(consts[0][1]) != "= getHeaderParser ( )":
        fail("top-level constants: " + str([(n, text(t)) for n, t in consts]))
    if [n for n in order if funcs[n][2]] != ["parsePose"]:
        fail("exported functions changed")
    L = ["(* GENERATED by harness/translate_c05.py from src/js/pose_format/src/parser.ts on every run - do not edit. *)",
         "From Coq Require Import String List ZArith NArith.", "Require Import C05_JsParser.", "Import ListNotations.",
         "Open Scope string_scope.", ""]

    # newParser
    np_src = text(funcs["newParser"][1])
    m = re.fullmatch(r'return new Parser \( \) \. endianess \( "(little|big)" \) ;?', np_src)
    if not m or funcs["newParser"][0]:
        fail("newParser: " + np_src)
    L.append("Definition js_little : bool := %s." % ("true" if m.group(1) == "little" else "false"))

    # componentHeaderParser / getHeaderParser
    def parser_function(name, env):
        env = dict(env)
        ret = None
        for st in statements(funcs[name][1]):
            if st[0].text == "const" and st[1].kind == "id" and st[2].text == "=":
                rhs = st[3:]
                if text(rhs[:3]) == "newParser ( )":
                    env[st[1].text] = close_chain(new_parser_chain(rhs, env))
                elif len(rhs) == 3 and rhs[0].text in returned and text(rhs[1:]) == "( )":
                    env[st[1].text] = returned[rhs[0].text]
                else:
                    fail("%s: unsupported initialiser %s" % (name, text(rhs)))
            elif st[0].text == "return":
                ret = close_chain(new_parser_chain(st[1:], env))
            else:
                fail("%s: unsupported statement %s" % (name, text(st)))
        if ret is None or funcs[name][0]:
            fail("%s: no return / unexpected parameters" % name)
        return env, ret
    returned = {}
    env1, comp = parser_function("componentHeaderParser", {})
    for nm in ("limbParser", "colorParser", "strParser"):
        if nm not in env1:
            fail("componentHeaderParser no longer defines " + nm)
    returned["componentHeaderParser"] = "js_component"
    L.append("Definition js_limb : schema := %s." % env1["limbParser"])
    L.append("Definition js_color : schema := %s." % env1["colorParser"])
    L.append("Definition js_str : schema := %s." % env1["strParser"])
    comp = comp.replace(env1["strParser"], "js_str").replace(env1["limbParser"], "js_limb").replace(env1["colorParser"], "js_color")
    L.append("Definition js_component : schema := %s." % comp)
    _, hdr = parser_function("getHeaderParser", {})
    L.append("Definition js_header : schema := %s." % hdr)
    L.append("")

    # parseBodyV0_1
    params = text(funcs["parseBodyV0_1"][0])
    if params != "header : PoseHeaderModel , buffer : Buffer , version : number":
        fail("parseBodyV0_1 parameters: " + params)
    body = funcs["parseBodyV0_1"][1]
    sts = statements(body)
    seek_sym = ("header . headerLength", "hl")
    init = find_stmt(sts, "let infoParser =")
    chain0 = new_parser_chain(init[3:], {}, seek_sym)
    if text(find_stmt(sts, "let infoSize =")) != "let infoSize = 0":
        fail("infoSize initialiser")
    iff = find_stmt(sts, "if ( version ===")
    branches, i = {}, 0
    while True:
        if text(iff[i:i + 4]) != "if ( version ===" or iff[i + 4].kind != "num" or iff[i + 5].text != ")" or iff[i + 6].text != "{":
            fail("version test of the info parser: " + text(iff[i:i + 8]))
        ver = iff[i + 4].text
        be = match_close(iff, i + 6)
        inner = statements(iff[i + 7:be])
        if len(inner) != 2 or text(inner[0][:3]) != "infoParser = infoParser" or text(inner[1][:2]) != "infoSize =" or inner[1][2].kind != "num" or len(inner[1]) != 3:
            fail("info branch for version %s: %s" % (ver, text(iff[i + 7:be])))
        if ver in branches:
            fail("duplicate version branch")
        branches[ver] = (chain_calls(inner[0][3:], {}), inner[1][2].text)
        i = be + 1
        if i >= len(iff) or iff[i].text != "else":
            fail("info parser: missing final else")
        i += 1
        if iff[i].text == "{":
            if not text(iff[i + 1:match_close(iff, i)]).startswith("throw new Error"):
                fail("info parser: the final else must throw")
            if match_close(iff, i) != len(iff) - 1:
                fail("info parser: trailing tokens")
            break
    if set(branches) != {"0.1", "0.2"}:
        fail("info parser branches: %s" % sorted(branches))
    common_st = [s for s in sts if text(s).startswith("infoParser = infoParser")]
    if len(common_st) != 1:
        fail("info parser: common tail")
    tail = chain_calls(common_st[0][3:], {})
    # order of statements: init, if, tail, parse
    idx = [sts.index(init), sts.index(iff), sts.index(common_st[0]), sts.index(find_stmt(sts, "const info ="))]
    if idx != sorted(idx) or text(find_stmt(sts, "const info =")) != "const info = infoParser . parse ( buffer )":
        fail("info parser: statement order")
    for ver, nm in (("0.1", "v01"), ("0.2", "v02")):
        L.append("Definition js_info_%s (hl : N) : schema := %s." % (nm, close_chain(chain0 + branches[ver][0] + tail)))
        if "." in branches[ver][1]:
            fail("infoSize must be an integer")
        L.append("Definition js_info_size_%s : Z := %s%%Z." % (nm, branches[ver][1]))
    # index expressions
    deep = all_statements(body)
    voc_len = {"info._frames": "frames", "info._people": "people", "_points": "points", "_dims": "dims"}
    d = find_stmt(deep, "const data = parseFloat32Array (")
    a = split_args(d[5:match_close(d, 4)])
    if len(a) != 2 or match_close(d, 4) != len(d) - 1:
        fail("data = parseFloat32Array(length, offset)")
    L.append("Definition js_data_len (frames people points dims : Z) : Z := (%s)%%Z." % parse_expr(a[0], voc_len))
    L.append("Definition js_data_start (header_length info_size : Z) : Z := (%s)%%Z."
             % parse_expr(a[1], {"header.headerLength": "header_length", "infoSize": "info_size"}))
    c = find_stmt(deep, "const confidence = parseFloat32Array (")
    a = split_args(c[5:match_close(c, 4)])
    if len(a) != 2 or text(a[1]) != "data . offset" or match_close(c, 4) != len(c) - 1:
        fail("confidence = parseFloat32Array(length, data.offset)")
    L.append("Definition js_conf_len (frames people points : Z) : Z := (%s)%%Z." % parse_expr(a[0], {k: v for k, v in voc_len.items() if v != "dims"}))
    o = find_stmt(deep, "const offset =")
    L.append("Definition js_offset (i people points j : Z) : Z := (%s)%%Z."
             % parse_expr(o[3:], {"i": "i", "j": "j", "info._people": "people", "_points": "points"}))
    p = find_stmt(deep, "const place =")
    L.append("Definition js_place (offset k l : Z) : Z := (%s)%%Z." % parse_expr(p[3:], {"offset": "offset", "k": "k", "l": "l"}))
    pt = find_stmt(deep, "point [ dim ] = data . data [")
    if match_close(pt, 8) != len(pt) - 1:
        fail("point[dim] = data.data[...]")
    L.append("Definition js_data_index (place dims dim_index : Z) : Z := (%s)%%Z."
             % parse_expr(pt[9:-1], {"place": "place", "_dims": "dims", "dimIndex": "dim_index"}))
    cf = find_stmt(deep, "const point : any =")
    if text(cf) != 'const point : any = { "C" : confidence . data [ place ] }':
        fail("confidence cell: " + text(cf))
    L.append("")

    # parsePose: rounding and case table
    pp = funcs["parsePose"][1]
    psts = statements(pp)
    v = find_stmt(psts, "const version =")
    m = re.fullmatch(r"const version = Math \. round \( header \. version \* (\d+) \) / (\d+)", text(v))
    if not m:
        fail("version rounding: " + text(v))
    L.append("Definition js_round_mul : Z := %s%%Z." % m.group(1))
    L.append("Definition js_round_div : Z := %s%%Z." % m.group(2))
    sw = find_stmt(psts, "switch ( version )")
    inner = sw[5:match_close(sw, 4)]
    table, labels, i = [], [], 0
    while i < len(inner):
        if inner[i].text == "case" and inner[i + 1].kind == "num" and inner[i + 2].text == ":":
            labels.append(inner[i + 1].text)
            i += 3
        elif inner[i].text == "default" and inner[i + 1].text == ":":
            rest = text(inner[i + 2:])
            if not rest.startswith("throw new Error"):
                fail("default case must throw")
            table.append(("default", "throw"))
            break
        elif text(inner[i:i + 2]) == "body =" and inner[i + 2].kind == "id" and labels:
            ce = match_close(inner, i + 3)
            call = text(inner[i + 2:ce + 1])
            if text(inner[ce + 1:ce + 4]) != "; break ;":
                fail("case body must be `body = f(...); break;`")
            for lb in labels:
                table.append((lb, call))
            labels = []
            i = ce + 4
        else:
            fail("switch body: " + text(inner[i:i + 6]))
    L.append("Definition js_switch : list (string * string) :=\n  [ %s ]." % ";\n    ".join("(%s, %s)" % (cstr(a), cstr(b)) for a, b in table))
    L.append("")
    for name in EXPECTED_FUNCS:
        L.append("Definition src_%s : string :=\n  %s." % (name, cstr("( " + text(funcs[name][0]) + " ) " + text(funcs[name][1]))))
    return "\n".join(L) + "\n"


def index_ts_check():
    """index.ts must still route Pose.from through parsePose (the entry point the check drives)"""
    try:
        src = open(INDEX_TS).read()
    except OSError as e:
        fail("cannot read index.ts: %s" % e)
    t = text(tokenize(src))
    if 'import { parsePose } from "./parser"' not in t or "const pose = parsePose ( buffer ) ; return new Pose ( pose . header , pose . body )" not in t:
        fail("index.ts: Pose.from no longer returns parsePose(buffer) unchanged")


TYPES_TS = os.path.join(REPO, "src", "js", "pose_format", "src", "types.d.ts")
# interface of types.d.ts -> (generated schema whose keys must provide its fields, extra keys provided by code)
TYPED = {"RGBColor": "js_color", "PoseLimb": "js_limb", "PoseHeaderComponentModel": "js_component", "PoseHeaderModel": "js_header"}


def types_fields():
    """types.d.ts: the declared fields of every exported interface (name, optional?) - the typed view applications get"""
    try:
        toks = tokenize(open(TYPES_TS).read())
    except OSError as e:
        fail("cannot read types.d.ts: %s" % e)
    out, i = {}, 0
    while i < len(toks):
        if text(toks[i:i + 2]) != "export interface" or toks[i + 2].kind != "id" or toks[i + 3].text != "{":
            fail("types.d.ts: unexpected top-level tokens %s" % text(toks[i:i + 4]))
        name = toks[i + 2].text
        e = match_close(toks, i + 3)
        body, fields, j = toks[i + 4:e], [], 0
        while j < len(body):
            if body[j].text == "[":            # index signature  [key: string]: T
                j = match_close(body, j) + 1
                fields.append("[]")
            elif body[j].kind == "id":
                fields.append(body[j].text + ("?" if body[j + 1].text == "?" else ""))
                j += 1
            else:
                fail("types.d.ts: interface %s: unexpected %s" % (name, body[j].text))
            while j < len(body) and body[j].text not in (";", ","):
                j += 1
            j += 1
        out[name] = fields
        i = e + 1
    return out


def stripped_parser():
    """type-strip parser.ts of the tree under test -> js/build/<tag>/parser.js (fail closed)"""
    tag = hashlib.sha1(os.path.abspath(REPO).encode()).hexdigest()[:8]
    out_dir = os.path.join(ROOT, "js", "build", tag)
    os.makedirs(out_dir, exist_ok=True)
    out = os.path.join(out_dir, "parser.js")
    r = subprocess.run(["node", os.path.join(ROOT, "js", "strip_types.js"), TS, out, os.path.join(ROOT, "js", "binary_parser_shim.js")],
                       capture_output=True, text=True, timeout=60)
    if r.returncode != 0 or not os.path.exists(out):
        fail("type stripping of parser.ts failed: " + (r.stderr or r.stdout)[-800:])
    return out


def gen():
    try:
        src = open(TS).read()
    except OSError as e:
        fail("cannot read parser.ts: %s" % e)
    gen_text = translate_text(src)
    tf = types_fields()
    for iface, schema_name in TYPED.items():
        if iface not in tf:
            fail("types.d.ts no longer declares " + iface)
        m = re.search(r"Definition %s : schema := (.*)\." % schema_name, gen_text)
        keys = set(re.findall(r'\(K "(\w+)"\)', m.group(1))) if m else set()
        missing = [f for f in tf[iface] if not f.endswith("?") and f != "[]" and f not in keys]
        if missing:
            fail("types.d.ts: %s declares %s, which %s of parser.ts does not produce" % (iface, missing, schema_name))
    gen_text += "\n(* src/js/pose_format/src/types.d.ts: declared fields of the exported interfaces *)\nDefinition types_fields : list (string * list string) :=\n  [ %s ].\n" % (
        ";\n    ".join("(%s, [%s])" % (cstr(k), "; ".join(cstr(f) for f in v)) for k, v in tf.items()))
    out = {"Gen_C05.v": gen_text}
    index_ts_check()
    stripped_parser()
    return out


if __name__ == "__main__":
    print(gen()["Gen_C05.v"])
