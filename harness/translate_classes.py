"""Fail-closed translator of the class structure of pose_format: for every class that has a base class inside the
package, the methods it OVERRIDES (defined in the class and in one of its package-level ancestors), and for every
class the attribute hooks it defines (__getattr__ and friends).  Regenerated into coq/gen/Gen_Classes.v on every run.

Why: the hand-written models transcribe a method from the class that defines it.  An override added to a subclass
(or an attribute hook added anywhere) changes which code runs without changing any transcribed statement list; the
tie lemmas of coq/proofs/ClassesTie.v turn that into a broken proof obligation.  A brand-new method that shadows
nothing does not change the table (no alarm for harmless additions)."""
import ast
import os

import common
import translate_py as tp

HOOKS = ("__getattr__", "__getattribute__", "__setattr__", "__delattr__", "__class_getitem__", "__init_subclass__",
         "__new__", "__set_name__", "__get__", "__set__")


def package_root():
    return tp.PY


def scan():
    root = package_root()
    classes = {}     # "relpath::Name" -> (bare name, bases, methods)
    for d, dirs, fs in os.walk(root):
        dirs[:] = sorted(x for x in dirs if x not in ("__pycache__", "testing"))
        for f in sorted(fs):
            if not f.endswith(".py") or f.endswith("_test.py") or f.startswith("test_"):
                continue
            p = os.path.join(d, f)
            rel = os.path.relpath(p, root)
            try:
                import warnings
                with warnings.catch_warnings():
                    warnings.simplefilter("ignore")
                    tree = ast.parse(open(p).read())
            except SyntaxError as e:
                raise common.TranslateError("cannot parse %s: %s" % (rel, e))
            for n in ast.walk(tree):
                if isinstance(n, ast.ClassDef):
                    bases = [ast.unparse(b).split(".")[-1] for b in n.bases]
                    methods = [m.name for m in n.body if isinstance(m, (ast.FunctionDef, ast.AsyncFunctionDef))]
                    key = "%s::%s" % (rel, n.name)
                    if key in classes:
                        raise common.TranslateError("class %s defined twice in %s" % (n.name, rel))
                    classes[key] = (n.name, bases, methods)
    return classes


def ancestors(classes, key, seen=None):
    """package-level ancestors, resolved by bare class name (every class of that name counts)"""
    seen = seen if seen is not None else set()
    out = []
    for b in classes[key][1]:
        for k2 in sorted(classes):
            if classes[k2][0] == b and k2 not in seen and k2 != key:
                seen.add(k2)
                out.append(k2)
                out += ancestors(classes, k2, seen)
    return out


def gen():
    classes = scan()
    if "pose_body.py::PoseBody" not in classes or "utils/reader.py::BufferReader" not in classes:
        raise common.TranslateError("PoseBody / BufferReader not found: package layout changed")
    over, hooks = [], []
    for name in sorted(classes):
        _, bases, methods = classes[name]
        anc = ancestors(classes, name)
        if anc:
            inherited = set()
            for a in anc:
                inherited.update(classes[a][2])
            over.append((name, anc, [m for m in methods if m in inherited]))
        hk = sorted({m for m in methods if m in HOOKS})
        if hk:
            hooks.append((name, hk))
    lines = [tp.HEADER.replace("translate_py.py", "translate_classes.py")]
    lines.append("Definition overrides : list (string * (list string * list string)) :=\n  " +
                 tp.clist(["(%s, (%s, %s))" % (tp.cstr(n), "[" + "; ".join(tp.cstr(a) for a in anc) + "]",
                                              "[" + "; ".join(tp.cstr(m) for m in ms) + "]") for n, anc, ms in over]) + ".\n")
    lines.append("Definition attr_hooks : list (string * list string) :=\n  " +
                 tp.clist(["(%s, %s)" % (tp.cstr(n), "[" + "; ".join(tp.cstr(m) for m in ms) + "]") for n, ms in hooks]) + ".\n")
    lines.append("")
    return {"Gen_Classes.v": "\n".join(lines)}


if __name__ == "__main__":
    for k, v in gen().items():
        print(v)
