"""C16 - frame selection, stepping and dropout return real frames in order.

Correspondence: every case builds the same small body on one backend (NumPy / PyTorch / TensorFlow), runs the real
operation through the public API and the extracted Coq model (coq/model/C16_*.v) on frame tokens, and compares the
frames (values, validity, confidence - each channel separately), the frame rate bit for bit, and the returned
indexes.  A random draw is replayed by seeding random / numpy.random / tf.random; the model's oracle argument
(what random.sample / tf.random.shuffle returned) is read back from the implementation's result, so the model
checks that it is a *possible* draw of the size it computes itself.
Oracle: the property statement on the implementation alone, against NumPy fancy indexing of the source arrays."""
import random
import struct
from fractions import Fraction

import numpy as np

import common
import translate_c16

BE = {"np": 0, "torch": 1, "tf": 2}
KIND = {"given": 0, "uniform": 1, "normal": 2}
HDR = 77


def b64(x):
    return struct.unpack("<Q", struct.pack("<d", float(x)))[0]


def f64(bits):
    return struct.unpack("<d", struct.pack("<Q", bits))[0]


def source(case):
    """(data, valid, conf) float32/bool/float32 arrays; every frame of every channel is distinguishable"""
    n = case["n"]
    P, K, D = case["shape"]
    rs = np.random.RandomState(case["mseed"])
    off = np.arange(P * K * D, dtype=np.float32).reshape(P, K, D)
    data = np.arange(n, dtype=np.float32)[:, None, None, None] * 64 + off
    valid = rs.rand(n, P, K, D) < 0.7
    conf = np.arange(n, dtype=np.float32)[:, None, None] + (np.arange(P * K, dtype=np.float32).reshape(P, K) + 1) / 64
    return data, valid, conf


def complement(n, idx):
    s = set(idx)
    return [i for i in range(n) if i not in s]


# Only this theorem may use the real-number axioms (it goes through Flocq, which also uses excluded middle); every other
# theorem of props/C16.v must stay closed under the global context.  common.run_check applies one allow-list to the whole
# file, so the per-theorem rule is enforced here by renaming such an axiom when it shows up anywhere else.
REAL_THEOREMS = {"keeps_at_least_one_every_n"}
REAL_OK = set(common.REALS_AXIOMS) | {"Classical_Prop.classic"}
_parse_assumptions = common.parse_assumptions


def _strict_parse_assumptions(output):
    res = _parse_assumptions(output)
    try:
        names = common.theorem_names(open(common.os.path.join(common.build.COQ, "props", "C16.v")).read())
    except OSError:
        return res
    for i, ax in enumerate(res):
        if i < len(names) and names[i] not in REAL_THEOREMS:
            res[i] = [("only-allowed-in-%s:%s" % (sorted(REAL_THEOREMS)[0], a)) if a in REAL_OK else a for a in ax]
    return res


common.parse_assumptions = _strict_parse_assumptions


PINNED_TF_STMTS = [
    "data_len = tf.cast(tf.shape(self.data.tensor)[0], dtype=tf.float32)",
    "number_sample = tf.squeeze(tf.round(data_len * dropout_percent))",
    "number_sample = tf.maximum(1.0, number_sample)",
    "number_sample = tf.cast(number_sample, dtype=tf.int32)",
    "idxs = tf.range(data_len - 1, dtype=tf.int32)",
    "select_indexes = tf.sort(tf.random.shuffle(idxs)[:number_sample])",
    "select_indexes = tf.cast(select_indexes, dtype=tf.int32)",
    "return (self.select_frames(select_indexes), select_indexes)",
]


class C16(common.Prop):
    ID = "C16"
    ALLOWED_AXIOMS = REAL_OK
    RUNNER = "c16"
    MODEL_FILES = ["base/F32.v", "model/C16_Frames.v", "model/C16_Run.v", "gen/Gen_C16.v"]
    RULE = ("bodies with 1..200 frames (1, 2, 3 and the cap boundary 99..101 over-weighted), P<=2, K<=3, D 2..3, on NumPy / "
            "PyTorch / TensorFlow; operations: select_frames (index lists with repeats, any order, empty; ~12% out of range or "
            "negative), slice_step (by 1..2n and beyond; ~10% zero / negative), frame_dropout_given_percent (fractions 0, -0, 1, "
            "k/n and its two neighbours, random, denormal, 0.99.., ~10% outside [0,1]), frame_dropout_uniform / _normal with the draw "
            "replayed by seed, and the Pose-level wrappers (slice_step, frame_dropout_uniform/_normal); thorough adds every fraction k/n "
            "with its two float neighbours and every step for n = 1..12 on the three backends; every result is compared "
            "with the extracted model channel by channel, fps bit for bit; non-trivial = input inside the property's quantifier "
            "(in-range index list, by >= 1, fraction in [0,1]); distinct by content hash " "Half of the Pose-level calls run on a Pose object used before with another body; arrays / tensors in C, Fortran-or-transposed and strided layouts.")
    TRUSTED = ["Coq 8.16.1 kernel (vm_compute for the finite cap sweep and the refuted witnesses)",
               "harness/translate_c16.py (fail-closed ast translator)",
               "extraction: ExtrOcamlBasic only; runner/driver.ml",
               "harness/c16.py: replay of random draws by seeding random / numpy.random / tf.random, reading the draw back from the result"]
    ASSUMPTIONS = ["NumPy / PyTorch fancy indexing, tf.gather, x[::k], tf.sort, tf.random.shuffle (returns a permutation), "
                   "random.sample (returns k distinct elements), IEEE-754 float32/float64 multiplication and float->int truncation "
                   "behave as modelled (sampled by the correspondence)",
                   "frame counts fit the float type exactly in the correspondence (n <= 200); theorems hold for every n"]

    cap = None            # the cap literal of pose_body.py as the translator read it on this run (None: not recognised)
    tf_is_pinned = False  # the TensorFlow dropout statements are exactly the pinned (pre-F10) ones

    def translate(self):
        self.cap, self.tf_is_pinned = None, False
        try:
            self.tf_is_pinned = translate_c16.stmts(translate_c16.method(
                "tensorflow/pose_body.py", "TensorflowPoseBody", "frame_dropout_given_percent")) == PINNED_TF_STMTS
        except Exception:
            pass
        out = translate_c16.gen()
        self.cap = translate_c16.cap_and_stmts()[1]
        return out

    def translate_outputs(self):
        return ["Gen_C16.v"]

    # ------------------------------------------------------------------------------------------
    def setup(self):
        import torch
        import tensorflow as tf
        from pose_format.numpy.pose_body import NumPyPoseBody
        from pose_format.torch.pose_body import TorchPoseBody
        from pose_format.tensorflow.pose_body import TensorflowPoseBody
        from pose_format.torch.masked.tensor import MaskedTensor as TM
        from pose_format.tensorflow.masked.tensor import MaskedTensor as FM
        from pose_format.pose import Pose
        from pose_format.pose_header import PoseHeader, PoseHeaderComponent, PoseHeaderDimensions
        self.torch, self.tf = torch, tf
        self.NB, self.TB, self.FB, self.TM, self.FM, self.Pose = NumPyPoseBody, TorchPoseBody, TensorflowPoseBody, TM, FM, Pose
        self.PoseHeader, self.PoseHeaderComponent, self.PoseHeaderDimensions = PoseHeader, PoseHeaderComponent, PoseHeaderDimensions

    def make_body(self, be, fps, data, valid, conf):
        lay = int(data.shape[0]) + int(data.size)        # memory layout of the arrays / tensors: a function of the case only
        if be == "np":
            return self.NB(fps, np.ma.MaskedArray(common.vary_layout(data.copy(), lay), mask=common.vary_layout(~valid, lay + 1)),
                           common.vary_layout(conf.copy(), lay + 2))
        if be == "torch":
            t = self.torch
            return self.TB(fps, self.TM(common.vary_torch(t.from_numpy(data.copy()), lay), common.vary_torch(t.from_numpy(valid.copy()), lay + 1)),
                           common.vary_torch(t.from_numpy(conf.copy()), lay + 2))
        tf = self.tf
        return self.FB(fps, self.FM(tf.constant(data), tf.constant(valid)), tf.constant(conf))

    def arrays(self, be, body):
        if be == "np":
            return np.asarray(body.data.data), ~np.ma.getmaskarray(body.data), np.asarray(body.confidence)
        if be == "torch":
            return body.data.tensor.numpy(), body.data.mask.numpy(), body.confidence.numpy()
        return body.data.tensor.numpy(), body.data.mask.numpy(), body.confidence.numpy()

    def make_header(self, case):
        P, K, D = case["shape"]
        comp = self.PoseHeaderComponent("c", ["p%d" % i for i in range(K)], [], [], "XYC" if D == 2 else "XYZC")
        return self.PoseHeader(0.2, self.PoseHeaderDimensions(10, 10, 10), [comp])

    def seed_all(self, seed):
        random.seed(seed)
        np.random.seed(seed)
        self.tf.random.set_seed(seed)

    def draw(self, case):
        """replay the draw of the fraction made by frame_dropout_uniform / _normal (before abs / clipping)"""
        be, kind = case["be"], case["kind"]
        a, b = f64(case["a"]), f64(case["b"])
        self.seed_all(case["seed"])
        tf = self.tf
        if kind == "uniform":
            if be == "tf":
                return float(tf.random.uniform([1], minval=a, maxval=b)[0].numpy())
            return float(np.random.uniform(low=a, high=b, size=1)[0])
        if be == "tf":
            return float(tf.random.normal([1], mean=a, stddev=b)[0].numpy())
        return float(np.random.normal(loc=a, scale=b, size=1)[0])

    # ------------------------------------------------------------------------------------------
    def run_impl(self, case):
        be, op, n = case["be"], case["op"], case["n"]
        data, valid, conf = source(case)
        fps = f64(case["fps"])
        body = self.make_body(be, fps, data, valid, conf)
        raw = {"st": "ok", "idx": None, "header": None, "draw": None}
        try:
            if op in ("drop", "pose_drop") and case["kind"] != "given":
                raw["draw"] = self.draw(case)
            self.seed_all(case["seed"])
            hdr = None
            if op == "select":
                res = body.select_frames(list(case["idx"]))
            elif op == "step":
                res = body.slice_step(case["by"])
            elif op == "drop":
                k = case["kind"]
                if k == "given":
                    res, idx = body.frame_dropout_given_percent(f64(case["p"]))
                elif k == "uniform":
                    res, idx = body.frame_dropout_uniform(dropout_min=f64(case["a"]), dropout_max=f64(case["b"]))
                else:
                    res, idx = body.frame_dropout_normal(dropout_mean=f64(case["a"]), dropout_std=f64(case["b"]))
                raw["idx"] = [int(i) for i in (idx.numpy().tolist() if hasattr(idx, "numpy") else idx)]
            else:
                hdr = self.make_header(case)
                if case["seed"] % 2 == 0:
                    pose = self.Pose(hdr, body)
                else:
                    # the Pose object has been used before with another body (reversed frames, another rate): the call under
                    # test must act on the body the pose holds NOW
                    warm = self.make_body(be, fps + 1.0, data[::-1].copy(), valid[::-1].copy(), conf[::-1].copy())
                    pose = self.Pose(hdr, warm)
                    try:
                        if op == "pose_step":
                            pose.slice_step(case["by"])
                        elif case["kind"] == "uniform":
                            pose.frame_dropout_uniform(dropout_min=f64(case["a"]), dropout_max=f64(case["b"]))
                        else:
                            pose.frame_dropout_normal(dropout_mean=f64(case["a"]), dropout_std=f64(case["b"]))
                    except Exception:
                        pass
                    pose.body = body
                    self.seed_all(case["seed"])
                if op == "pose_step":
                    rp = pose.slice_step(case["by"])
                else:
                    if case["kind"] == "uniform":
                        rp, idx = pose.frame_dropout_uniform(dropout_min=f64(case["a"]), dropout_max=f64(case["b"]))
                    else:
                        rp, idx = pose.frame_dropout_normal(dropout_mean=f64(case["a"]), dropout_std=f64(case["b"]))
                    raw["idx"] = [int(i) for i in (idx.numpy().tolist() if hasattr(idx, "numpy") else idx)]
                raw["header"] = "same" if rp.header is hdr else "other"
                raw["pose_type"] = type(rp).__name__
                res = rp.body
            raw["type"] = type(res).__name__
            raw["fps"] = res.fps
            raw["data"], raw["valid"], raw["conf"] = self.arrays(be, res)
        except Exception as e:  # every exception is one class (DESIGN section 4)
            raw = {"st": "err", "exc": type(e).__name__, "msg": str(e)[:160], "idx": None, "draw": raw.get("draw")}
        case["_raw"] = raw
        case["_src"] = (data, valid, conf)
        return self.canon_impl(case, raw)

    @staticmethod
    def mask_canon(valid):
        """frame index -> first frame index with the same validity pattern"""
        first, out = {}, []
        for i in range(len(valid)):
            out.append(first.setdefault(valid[i].tobytes(), i))
        return out

    def canon_impl(self, case, raw):
        if raw["st"] != "ok":
            return {"st": "err"}
        data, valid, conf = case["_src"]
        n = case["n"]
        od, ov, oc = raw["data"], raw["valid"], raw["conf"]
        dt, mt, ct = [], [], []
        if od.shape[1:] != data.shape[1:] or ov.shape != od.shape or oc.shape[1:] != conf.shape[1:] or len(oc) != len(od):
            return {"st": "ok", "shape": "wrong %s %s %s" % (od.shape, ov.shape, oc.shape)}
        mfirst = {}
        for i in range(n):
            mfirst.setdefault(valid[i].tobytes(), i)
        for j in range(len(od)):
            t = int(od[j].flat[0]) // 64 if od[j].size else -1
            dt.append(t if 0 <= t < n and np.array_equal(od[j], data[t]) else -1)
            mt.append(mfirst.get(ov[j].tobytes(), -1))
            t = int(np.floor(oc[j].flat[0])) if oc[j].size else -1
            ct.append(t if 0 <= t < n and np.array_equal(oc[j], conf[t]) else -1)
        out = {"st": "ok", "fps": b64(raw["fps"]) if isinstance(raw["fps"], float) else "not-a-float:%r" % (raw["fps"],),
               "data": dt, "mask": mt, "conf": ct}
        if raw["idx"] is not None:
            out["idx"] = raw["idx"]
        if raw.get("header") is not None:
            out["header"] = raw["header"]
        return out

    # ------------------------------------------------------------------------------------------
    def run_model(self, case, runner):
        be, op, n = case["be"], case["op"], case["n"]
        raw = case["_raw"]
        body = [case["fps"], list(range(n)), list(range(n)), list(range(n))]
        pose_level = op.startswith("pose_")
        if op == "select":
            rep = runner.ask([1, BE[be], body, list(case["idx"])])
        elif op == "step":
            rep = runner.ask([2, BE[be], body, case["by"]])
        elif op == "pose_step":
            rep = runner.ask([6, 4, BE[be], HDR, body, case["by"], []])
        else:
            kind = case["kind"]
            pbits = case["p"] if kind == "given" else b64(raw["draw"] if raw["draw"] is not None else 0.0)
            idx = raw["idx"] if raw["st"] == "ok" and raw["idx"] is not None else None
            ok_idx = idx is not None and all(0 <= i < n for i in idx) and len(set(idx)) == len(idx)
            if be != "tf":
                orc = complement(n, idx) if ok_idx else []
                if pose_level:
                    rep = runner.ask([6, 0 if kind == "uniform" else 1, BE[be], HDR, body, pbits, orc])
                else:
                    rep = runner.ask([3, BE[be], KIND[kind], body, pbits, orc])
            else:
                orc = (idx + complement(n, idx)) if ok_idx else list(range(n))
                if pose_level:
                    rep = runner.ask([6, 2 if kind == "uniform" else 3, BE[be], HDR, body, pbits, orc])
                else:
                    rep = runner.ask([4, KIND[kind], body, pbits, orc])
                # does the implementation behave like the pinned (pre-repair) TensorFlow code?  (classification only)
                case["_pinned"] = False
                if ok_idx and all(i < n - 1 for i in idx):
                    eff = f64(pbits)
                    if kind == "normal":
                        eff = max(eff, 0.0)
                    r5 = runner.ask([5, body, b64(eff), idx + complement(n - 1, idx)])
                    case["_pinned"] = (r5[0] == 1 and r5[1][1] == idx)
        return self.canon_model(case, rep, pose_level)

    def canon_model(self, case, rep, pose_level):
        if rep[0] == 0:
            return {"st": "err"}
        if rep[0] == 2:
            return {"st": "not-a-possible-draw", "model_count": rep[1]}
        pay = rep[1]
        out = {"st": "ok"}
        if pose_level:
            out["header"] = "same" if pay[0] == HDR else "other"
            pay = pay[1:]
            b = pay[0]
            idx = pay[1] if len(pay) > 1 else None
        elif case["op"] in ("select", "step"):
            b, idx = pay, None
        else:
            b, idx = pay[0], pay[1]
        mc = self.mask_canon(case["_src"][1])
        out.update({"fps": b[0], "data": list(b[1]), "mask": [mc[t] for t in b[2]], "conf": list(b[3])})
        if idx is not None:
            out["idx"] = list(idx)
        return out

    def compare(self, case, impl_out, model_out):
        if impl_out == model_out:
            return None
        if impl_out["st"] != model_out["st"]:
            if model_out["st"] == "not-a-possible-draw":
                idx = case["_raw"]["idx"]
                return ("the implementation returned %s of %d frames; the model computes that the draw has %d elements"
                        % (len(idx) if idx is not None else "no index list", case["n"], model_out["model_count"]))
            return "implementation: %s, model: %s" % (impl_out["st"], model_out["st"])
        diff = [k for k in sorted(set(impl_out) | set(model_out)) if impl_out.get(k) != model_out.get(k)]
        return "fields differ: %s" % diff

    # ------------------------------------------------------------------------------------------
    # direct oracle: the property statement on the implementation alone
    def oracle(self, case):
        raw = case.get("_raw")
        if raw is None:
            return None
        be, op, n = case["be"], case["op"], case["n"]
        data, valid, conf = case["_src"]
        fps = f64(case["fps"])

        def frames_are(idx, what):
            """returned body == source fancy-indexed by idx, on all three channels"""
            ia = np.array(idx, dtype=np.int64)
            for name, got, src in (("data", raw["data"], data), ("validity", raw["valid"], valid), ("confidence", raw["conf"], conf)):
                exp = src[ia]
                if got.shape != exp.shape or not np.array_equal(got, exp):
                    return {"what": "%s: returned %s is not the source indexed by %s" % (what, name, common.small(idx, 120)),
                            "clause": "frames", "channel": name}
            return None

        if op == "select":
            idx = list(case["idx"])
            inr = all(0 <= i < n for i in idx)
            if raw["st"] != "ok":
                if inr and idx:
                    return {"what": "select_frames raises %s for an in-range index list" % raw.get("exc"), "clause": "select-raises"}
                return None
            if not all(-n <= i < n for i in idx):
                return {"what": "select_frames returned a body for an out-of-range index list", "clause": "select-out-of-range"}
            f = frames_are([i % n for i in idx], "select_frames")
            if f:
                return f
            if raw["fps"] != fps:
                return {"what": "select_frames changed the frame rate", "clause": "select-fps"}
            return None
        if op in ("step", "pose_step"):
            by = case["by"]
            if by < 1:
                if by == 0 and raw["st"] == "ok":
                    return {"what": "slice_step(0) returned a body", "clause": "step-zero"}
                return None
            if raw["st"] != "ok":
                return {"what": "slice_step(%d) raises %s" % (by, raw.get("exc")), "clause": "step-raises"}
            f = frames_are(list(range(0, n, by)), "slice_step(%d)" % by)
            if f:
                return f
            if not isinstance(raw["fps"], float) or b64(raw["fps"]) != b64(fps / by):
                return {"what": "slice_step(%d): frame rate %r is not %r / %d" % (by, raw["fps"], fps, by), "clause": "step-fps"}
            if op == "pose_step" and raw["header"] != "same":
                return {"what": "Pose.slice_step replaced the header", "clause": "header"}
            return None
        # dropout
        kind = case["kind"]
        a = f64(case["a"]) if kind != "given" else None
        b = f64(case["b"]) if kind != "given" else None
        p = f64(case["p"]) if kind == "given" else None
        if kind == "given":
            inside = 0.0 <= p <= 1.0
        elif kind == "uniform":
            inside = 0.0 <= a <= b <= 1.0
        else:
            inside = b >= 0.0
        if raw["st"] != "ok":
            if inside:
                return {"what": "dropout (%s) raises %s: %s" % (kind, raw.get("exc"), raw.get("msg")), "clause": "drop-raises"}
            return None
        idx = raw["idx"]
        if any(not (0 <= i < n) for i in idx) or any(idx[j] >= idx[j + 1] for j in range(len(idx) - 1)):
            return {"what": "returned indexes are not strictly increasing within range(%d): %s" % (n, common.small(idx, 160)),
                    "clause": "sorted-in-range"}
        f = frames_are(idx, "dropout")
        if f:
            return f
        if raw["fps"] != fps:
            return {"what": "dropout changed the frame rate", "clause": "drop-fps"}
        if op == "pose_drop" and raw["header"] != "same":
            return {"what": "Pose-level dropout replaced the header", "clause": "header"}
        if len(idx) < 1:
            return {"what": "dropout kept no frame of a %d-frame body" % n, "clause": "keeps-one"}
        if not inside:
            return None
        dropped = n - len(idx)
        # "unless capped": the generic code never drops more than int(n * cap) frames, cap being the literal the translator
        # read from the source on this run (a different cap value is a harmless change; no recognisable cap: no excuse);
        # the TensorFlow code caps at n - 1
        if be == "tf":
            few_kept = len(idx) == 1
        else:
            few_kept = self.cap is not None and dropped > Fraction(self.cap) * n - 1

        def as_backend(x):   # the fraction as the backend's float type receives it
            return Fraction(float(np.float32(x))) if be == "tf" else Fraction(x)

        if kind == "given":
            if p == 0.0 and dropped != 0:
                return {"what": "fraction 0 dropped %d of %d frames" % (dropped, n), "clause": "zero-drops-nothing"}
            q = as_backend(p) * n
            if not (abs(dropped - q) < 1 or (dropped < q and few_kept)):
                return {"what": "fraction %r of %d frames: dropped %d (asked for about %.3f)" % (p, n, dropped, float(q)),
                        "clause": "about-the-fraction"}
        elif kind == "uniform":
            lo, hi = as_backend(a) * n, as_backend(b) * n
            if not (dropped < hi + 1 and (dropped > lo - 1 or few_kept)):
                return {"what": "uniform fraction in [%r, %r] of %d frames: dropped %d" % (a, b, n, dropped),
                        "clause": "about-the-fraction"}
            if b == 0.0 and dropped != 0:
                return {"what": "uniform fraction 0 dropped %d of %d frames" % (dropped, n), "clause": "zero-drops-nothing"}
        else:
            if a == 0.0 and b == 0.0 and dropped != 0:
                return {"what": "normal fraction N(0, 0) dropped %d of %d frames" % (dropped, n), "clause": "zero-drops-nothing"}
            if b == 0.0:
                q = as_backend(abs(a)) * n
                if not (abs(dropped - q) < 1 or (dropped < q and few_kept)):
                    return {"what": "normal fraction N(%r, 0) of %d frames: dropped %d" % (a, n, dropped), "clause": "about-the-fraction"}
        return None

    def classify(self, case, failure):
        be, op = case["be"], case["op"]
        if be == "tf" and op in ("drop", "pose_drop") and self.tf_is_pinned and case.get("_pinned") \
                and failure.get("clause") in ("keeps-one", "zero-drops-nothing", "about-the-fraction"):
            return "tf-dropout-keeps-round-n-p-of-the-first-n-1-frames"      # F10: the pinned TensorFlow code
        return "%s-%s-%s" % (be, op, failure.get("clause", "oracle"))

    # ------------------------------------------------------------------------------------------
    def features(self, case):
        n = case["n"]
        nc = "1" if n == 1 else "2-3" if n <= 3 else "99-101" if 99 <= n <= 101 else "small" if n < 30 else "large"
        extra = case.get("cls", "")
        return (case["op"], case["be"], case.get("kind", ""), nc, extra)

    def nontrivial(self, case):
        return not case.get("malformed", False)

    def gen_cases(self, rng, tier):
        total = 600 if tier == "quick" else 24000
        for _ in range(total):
            yield self.gen_one(rng)
        if tier == "thorough":
            # small scope, enumerated: every fraction k/n with its two neighbours and every step, n = 1..12, three backends
            for be in ("np", "torch", "tf"):
                for n in range(1, 13):
                    base = {"be": be, "n": n, "shape": [1, 2, 2], "fps": b64(30.0), "mseed": n}
                    for k in range(0, n + 1):
                        for q in (k / n, float(np.nextafter(k / n, 2.0)), float(np.nextafter(k / n, -1.0))):
                            if 0.0 <= q <= 1.0:
                                yield dict(base, op="drop", kind="given", p=b64(q), seed=rng.randrange(2 ** 31), cls="enum-k/n")
                    for by in range(1, n + 2):
                        yield dict(base, op="step", by=by, seed=0, cls="enum-by")

    def gen_one(self, rng):
        be = rng.choice(["np", "torch", "tf"])
        r = rng.random()
        if r < 0.35:
            n = rng.choice([1, 1, 2, 2, 3, 3, 4, 5, 99, 100, 101, 200, 256, 257, 300, 1000])      # beyond one byte, beyond CPython's small ints
        else:
            n = rng.randint(1, 200)
        case = {"be": be, "n": n, "shape": [rng.choice([1, 2]), rng.choice([1, 2, 3]), rng.choice([2, 3])],
                "fps": b64(rng.choice([30.0, 25.0, 29.97, 60.0, 12.5, 1.0, 23.976, 0.1, 1e-3, 120.0])),
                "seed": rng.randrange(2 ** 31), "mseed": rng.randrange(2 ** 31)}
        r = rng.random()
        if r < 0.15:
            case["op"] = "select"
            if rng.random() < 0.12:
                case["malformed"] = True
                ln = rng.randint(1, 6)
                idx = [rng.randrange(n) for _ in range(ln)]
                idx[rng.randrange(ln)] = rng.choice([n, n + rng.randint(1, 9), -n - 1, -1, -n, -rng.randint(1, n)])
                case["cls"] = "bad-index"
            else:
                ln = rng.choice([0, 1, 1, 2, n, rng.randint(0, 2 * n)])
                mode = rng.random()
                if mode < 0.08 and n >= 2:
                    # evenly spaced runs written with from-the-end indexes: [-3, -2, -1], [-2, -1, 0, 1] (Python's convention, which
                    # NumPy and PyTorch index lists share)
                    k = rng.randint(2, min(n, 5))
                    idx = list(range(-k, 0)) if rng.random() < 0.5 or n < 3 else list(range(-2, min(n - 2, 3)))
                elif mode < 0.15 and n >= 3:
                    # as long as the body and pinned at both ends, but not the identity: a shuffle / repeats in between
                    mid = list(range(1, n - 1))
                    rng.shuffle(mid)
                    if rng.random() < 0.4:
                        mid = [rng.randrange(n) for _ in mid]
                    idx = [0] + mid + [n - 1]
                elif mode < 0.5:
                    idx = [rng.randrange(n) for _ in range(ln)]
                elif mode < 0.7:
                    idx = sorted(rng.sample(range(n), min(ln, n)), reverse=rng.random() < 0.5)
                else:
                    idx = [rng.choice([0, n - 1, n // 2]) for _ in range(ln)]
                case["cls"] = "empty" if not idx else "idx"
                if not idx:
                    case["malformed"] = True
            case["idx"] = idx
        elif r < 0.32:
            case["op"] = "step" if rng.random() < 0.7 else "pose_step"
            if rng.random() < 0.1:
                case["malformed"] = True
                case["by"] = rng.choice([0, -1, -2, -n, -n - 3])
                case["cls"] = "by<=0"
            else:
                case["by"] = rng.choice([1, 2, 2, 3, 4, 5, 7, max(1, n - 1), n, n + 1, 2 * n, 1000, rng.randint(1, n + 2),
                                         2 ** 40, 2 ** 53 + 1])
                case["cls"] = "by=1" if case["by"] == 1 else "by>=n" if case["by"] >= n else "by"
        else:
            pose_level = rng.random() < 0.2
            kinds = ["uniform", "normal"] if pose_level else ["given"] * 6 + ["uniform"] * 2 + ["normal"] * 2
            kind = rng.choice(kinds)
            case["op"] = "pose_drop" if pose_level else "drop"
            case["kind"] = kind
            if kind == "given":
                c = rng.random()
                if c < 0.10:
                    p, cl = rng.choice([0.0, -0.0]), "p=0"
                elif c < 0.18:
                    p, cl = 1.0, "p=1"
                elif c < 0.45:
                    k = rng.randint(0, n)
                    p = k / n
                    m = rng.random()
                    if m < 0.33:
                        p = float(np.nextafter(p, 2.0))
                    elif m < 0.66 and p > 0:
                        p = float(np.nextafter(p, -1.0))
                    p, cl = min(p, 1.0), "p~k/n"
                elif c < 0.52:
                    p, cl = rng.choice([5e-324, 1e-300, 1e-40, 1.1754944e-38, 1e-9, 1.0 / 400]), "p-tiny"
                elif c < 0.62:
                    p, cl = rng.choice([0.99, 0.995, 0.98, float(np.nextafter(1.0, 0.0)), 0.9999, 0.989]), "p-near-1"
                elif c < 0.72:
                    p, cl = rng.choice([-0.3, -1e-9, -1.0, 1.5, 2.0, 10.0, 1.0000001, -0.004]), "p-outside"
                    case["malformed"] = True
                else:
                    p, cl = rng.random(), "p-random"
                case["p"] = b64(p)
                case["cls"] = cl
            elif kind == "uniform":
                a, b = rng.choice([(0.2, 1.0), (0.2, 1.0), (0.0, 0.0), (0.0, 1.0), (0.5, 0.5), (1.0, 1.0), (0.0, 0.3),
                                   tuple(sorted([round(rng.random(), 3), round(rng.random(), 3)])), (0.9, 1.0)])
                case["a"], case["b"] = b64(a), b64(b)
                case["cls"] = "default" if (a, b) == (0.2, 1.0) else "a=b" if a == b else "range"
            else:
                a, b = rng.choice([(0.5, 0.1), (0.5, 0.1), (0.0, 0.0), (1.0, 0.0), (0.3, 0.5), (2.0, 0.1), (0.25, 0.0),
                                   (0.0, 0.2), (0.9, 0.2), (round(rng.random(), 3), round(rng.random() / 2, 3))])
                case["a"], case["b"] = b64(a), b64(b)
                case["cls"] = "default" if (a, b) == (0.5, 0.1) else "std=0" if b == 0 else "mean-sd"
        return case


PROP = C16
