#!/bin/sh
# usage: harness/run_all.sh quick C01 C03 ...   -> one summary line per check (runs 4 at a time)
tier=$1; shift
mkdir -p /tmp/verif-runall
printf '%s\n' "$@" | xargs -P 4 -I{} sh -c "cd /verif && ./check {} --tier $tier > /tmp/verif-runall/{}.log 2>&1; echo {} exit=\$? \$(grep -c VIOLATION /tmp/verif-runall/{}.log) violation-lines: \$(tail -1 /tmp/verif-runall/{}.log)"
