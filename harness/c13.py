"""C13 - normalisation removes exactly the variation it is meant to remove.

Case kinds (field "kind"):
  norm2    Pose.normalize on a NumPy (float64 / float32) or TensorFlow body, reference points given or looked up by format
  dist     Pose.normalize_distribution + unnormalize_distribution over a leading block of axes
  norm3d   PoseNormalizer(plane, line, size)(data)  (NumPy only)
  hands3d  normalize_hands_3d(pose): lookup by format + 3-D normaliser + concatenation
  lookup   pose_normalization_info(header)
  zrot     the Rotation.from_euler / arctan2 hypothesis of the 3-D model, sampled on PoseNormalizer.rotate
Every case is run through the implementation (public API), through the extracted model (runner "c13",
binary64) and through the direct oracle (the property statement measured on the implementation's outputs
with plain NumPy, plus re-runs on translated / scaled / rotated copies of the input)."""
import math
import struct
import warnings

import numpy as np

import common
import translate_c13

warnings.simplefilter("ignore")

TOL32 = 1e-4      # float32 data (NumPy float32, TensorFlow float32): relative to the requested scale / size
TOL64 = 1e-9      # float64 data


def f2b(x):
    return struct.unpack("<Q", struct.pack("<d", float(x)))[0]


def b2f(w):
    return struct.unpack("<d", struct.pack("<Q", w))[0]


def r32(x):
    return float(np.float32(x))


def cps(s):
    return [ord(c) for c in s]


def uncps(l):
    return "".join(chr(c) for c in l)


def canon_float(x):
    x = float(x)
    return "nan" if math.isnan(x) else x


def close(a, b, tol):
    """a, b: flat lists of canonical floats"""
    if len(a) != len(b):
        return False
    for x, y in zip(a, b):
        if x == "nan" or y == "nan":
            if x != y:
                return False
        elif math.isinf(x) or math.isinf(y):
            if x != y:
                return False
        elif abs(x - y) > tol:
            return False
    return True


def maxdiff(a, b):
    m = 0.0
    for x, y in zip(a, b):
        if x == "nan" or y == "nan":
            if x != y:
                return float("inf")
        else:
            d = abs(x - y)
            if not (d <= m):
                m = d
    return m


# ----------------------------------------------------------------------------------------------
# name tables used by generator and oracle (independent of the Coq model; the model's tables are tied to the
# source by the translator)
SHOULDERS = {"holistic": ("POSE_LANDMARKS", "RIGHT_SHOULDER", "LEFT_SHOULDER"),
             "openpose": ("pose_keypoints_2d", "RShoulder", "LShoulder"),
             "openpose_135": ("BODY_135", "RShoulder", "LShoulder")}
HANDS = {"holistic": (("LEFT_HAND_LANDMARKS", "RIGHT_HAND_LANDMARKS"), ("WRIST", "PINKY_MCP", "INDEX_FINGER_MCP"), ("WRIST", "MIDDLE_FINGER_MCP")),
         "openpose": (("hand_left_keypoints_2d", "hand_right_keypoints_2d"), ("BASE", "P_CMC", "I_CMC"), ("BASE", "M_CMC"))}
KNOWN = {"holistic": ["POSE_LANDMARKS", "FACE_LANDMARKS", "LEFT_HAND_LANDMARKS", "RIGHT_HAND_LANDMARKS", "POSE_WORLD_LANDMARKS"],
         "openpose": ["pose_keypoints_2d", "face_keypoints_2d", "hand_left_keypoints_2d", "hand_right_keypoints_2d"],
         "openpose_135": ["BODY_135"]}
EXTRA_POINTS = ["NOSE", "Neck", "LEFT_ELBOW", "x", "", "RIGHT_SHOULDER ", "pé", "WRIST", "BASE", "M_CMC", "THUMB_TIP"]
EXTRA_COMPS = ["other", "", "pose_keypoints_3d", "POSE_LANDMARKS ", "א"]


def detect_ref(names):
    for n in names:
        for f in ("holistic", "openpose", "openpose_135"):
            if n in KNOWN[f]:
                return f
    return None


# ----------------------------------------------------------------------------------------------
# generators
def gen_header(rng, want=None, hands=False, unique=False):
    """header as [{"name": str, "points": [str]}]; mostly resolvable for format `want`"""
    fmt = want or rng.choice(["holistic", "openpose", "openpose_135"])
    comps = []
    main_c, p1, p2 = SHOULDERS[fmt]
    pts = [p1, p2] + rng.sample(EXTRA_POINTS, rng.randrange(0, 4))
    rng.shuffle(pts)
    if rng.random() < 0.15:
        pts.append(rng.choice([p1, p2]))            # duplicate point name: list.index takes the first
    comps.append({"name": main_c, "points": pts})
    if hands and fmt in HANDS:
        (lh, rh), plane, line = HANDS[fmt]
        for h in (lh, rh):
            hp = list(dict.fromkeys(list(plane) + list(line))) + rng.sample(EXTRA_POINTS[:7], rng.randrange(0, 3))
            hp = list(dict.fromkeys(hp))
            rng.shuffle(hp)
            comps.append({"name": h, "points": hp})
    for _ in range(rng.randrange(0, 3)):
        comps.append({"name": rng.choice(EXTRA_COMPS + KNOWN[fmt][1:2]), "points": rng.sample(EXTRA_POINTS, rng.randrange(0, 4))})
    rng.shuffle(comps)
    r = rng.random()
    edge = "ok"
    if r < 0.08:
        other = rng.choice([f for f in KNOWN if f != fmt])
        comps.insert(0, {"name": rng.choice(KNOWN[other]), "points": rng.sample(EXTRA_POINTS, 2)})   # another format detected first
        edge = "other-format-first"
    elif r < 0.14:
        comps = [c for c in comps if c["name"] != main_c]
        edge = "component-missing"
    elif r < 0.20:
        for c in comps:
            if c["name"] == main_c:
                c["points"] = [p for p in c["points"] if p != p2]
        edge = "point-missing"
    elif r < 0.25:
        comps = [c for c in comps if c["name"] not in sum(KNOWN.values(), [])]
        edge = "unknown-format"
    elif r < 0.32 and not unique:
        comps.append({"name": main_c, "points": [p2, p1, "x"]})      # duplicate component name: the first one counts
        edge = "duplicate-component"
    if unique:
        seen, out = set(), []
        for c in comps:
            if c["name"] not in seen:
                seen.add(c["name"])
                out.append(c)
        comps = out
    return comps, edge


def gen_mask(rng, F, P, N, cls):
    if cls == "full":
        return [0] * (F * P * N)
    p = 0.25 if cls == "some" else 0.5
    return [1 if rng.random() < p else 0 for _ in range(F * P * N)]


def rand_rotation(rng):
    # unit quaternion -> rotation matrix
    while True:
        q = [rng.gauss(0, 1) for _ in range(4)]
        n = math.sqrt(sum(x * x for x in q))
        if n > 1e-3:
            break
    w, x, y, z = [c / n for c in q]
    return [1 - 2 * (y * y + z * z), 2 * (x * y - z * w), 2 * (x * z + y * w),
            2 * (x * y + z * w), 1 - 2 * (x * x + z * z), 2 * (y * z - x * w),
            2 * (x * z - y * w), 2 * (y * z + x * w), 1 - 2 * (x * x + y * y)]


def gen_norm2(rng):
    F, P = rng.randrange(1, 5), rng.randrange(1, 5)
    D = rng.choice([1, 2, 2, 2, 3, 3, 4])
    backend = rng.choice(["np64", "np32", "tf32"])
    s = 10 ** rng.uniform(-1, 2)
    case = {"kind": "norm2", "backend": backend}
    by_lookup = rng.random() < 0.3
    if by_lookup:
        comps, edge = gen_header(rng)
        N = sum(len(c["points"]) for c in comps)
        case["comps"] = comps
        case["hedge"] = edge
        fl = [(c["name"], p) for c in comps for p in c["points"]]
        fmt = detect_ref([c["name"] for c in comps])
        i = j = None
        if fmt:
            c0, a, b = SHOULDERS[fmt]
            i = next((k for k, x in enumerate(fl) if x == (c0, a)), None)
            j = next((k for k, x in enumerate(fl) if x == (c0, b)), None)
        if N < 2 or i is None or j is None:
            i, j = 0, min(1, max(N - 1, 0))
    else:
        N = rng.randrange(2, 9)
        i = rng.randrange(N)
        j = rng.choice([k for k in range(N) if k != i])
        case["i"], case["j"] = i, j
    mcls = rng.choice(["full", "some", "some", "refs-some", "none-joint"])
    mask = gen_mask(rng, F, P, N, "some" if mcls in ("refs-some", "none-joint") else mcls)
    data = []
    for r in range(F * P):
        while True:
            row = [[r32(rng.uniform(-4, 4) * s) for _ in range(D)] for _ in range(N)]
            if N < 2 or math.dist(row[i], row[j]) >= 0.3 * s:
                break
        data += [x for p in row for x in p]
    if N >= 2:
        for r in range(F * P):
            if mcls in ("full", "some"):
                mask[r * N + i] = mask[r * N + j] = 0
            elif mcls == "none-joint":
                mask[r * N + rng.choice([i, j])] = 1
        if mcls == "refs-some":
            r = rng.randrange(F * P)
            mask[r * N + i] = mask[r * N + j] = 0
    case.update({"shape": [F, P, N, D], "data": data, "mask": mask, "mcls": mcls,
                 "sf": rng.choice([1.0, 1.0, 2.5, 0.5, 100.0, r32(s)]),
                 "xf": {"a": r32(10 ** rng.uniform(-1, 1)), "t": [r32(rng.uniform(-10, 10) * s) for _ in range(D)]},
                 "s": s})
    if rng.random() < 0.04 and not by_lookup:
        case["j"] = case["i"]
        case["mcls"] = "same-point"
    return case


NONLEADING = [(1,), (2,), (3,), (1, 2), (0, 2), (1, 3), (2, 3), (0, 3), (0, 1, 3), (1, 2, 3), (0, 2, 3)]


def group_ids(shape, axes):
    """group of every cell (row-major) when reducing over `axes`: ravel of the remaining coordinates"""
    rem = [a for a in range(len(shape)) if a not in axes]
    idx = np.indices(shape)
    if not rem:
        return np.zeros(int(np.prod(shape)), dtype=int), 1
    g = np.ravel_multi_index([idx[a] for a in rem], [shape[a] for a in rem]).reshape(-1)
    return g, int(np.prod([shape[a] for a in rem]))


def gen_dist(rng):
    lead = rng.random() < 0.75
    while True:
        if lead:
            shape = [rng.randrange(1, 5), rng.randrange(1, 5), rng.randrange(1, 5), rng.choice([1, 2, 3])]
            axes = list(range(rng.choice([1, 2, 2, 2, 3, 4])))
        else:
            # extents 2..3: coincidences between the extents of different axes are common (then broadcasting does not raise)
            shape = [rng.randrange(2, 4) for _ in range(4)]
            axes = list(rng.choice(NONLEADING))
        if int(np.prod([shape[a] for a in axes])) >= 3:
            break
    F, P, N, D = shape
    grp, G = group_ids(shape, axes)
    backend = rng.choice(["np64", "np32", "tf32"])
    s = 10 ** rng.uniform(-1, 2)
    mcls = rng.choice(["full", "some", "some", "group-missing"])
    mask = gen_mask(rng, F, P, N, "some" if mcls != "full" else "full")
    off = [r32(rng.uniform(-5, 5) * s) for _ in range(G)]
    data = [r32(off[grp[c]] + rng.uniform(-1, 1) * s) for c in range(F * P * N * D)]

    def cellmask():
        return np.repeat(np.array(mask).reshape(F, P, N)[..., None], D, axis=-1).reshape(-1)

    # repair: every group has no observation at all or at least two that are >= 0.2 s apart
    for g in range(G):
        if mcls == "group-missing" and g == 0:
            continue
        idx = [c for c in range(len(data)) if grp[c] == g]
        cm_ = cellmask()
        obs = [data[c] for c in idx if not cm_[c]]
        if len(obs) < 2 or (max(obs) - min(obs)) < 0.2 * s:
            for c in idx[:2]:
                mask[c // D] = 0
            data[idx[0]] = r32(off[g] - 0.5 * s)
            data[idx[1]] = r32(off[g] + 0.5 * s)
    if mcls == "group-missing":
        for c in range(len(data)):
            if grp[c] == 0:
                mask[c // D] = 1       # the points that have a cell in group 0
    cm_ = cellmask()
    for g in range(G):
        obs = [data[c] for c in range(len(data)) if grp[c] == g and not cm_[c]]
        if len(obs) == 1 or (len(obs) >= 2 and (max(obs) - min(obs)) < 0.2 * s):
            mcls = "degenerate"
    return {"kind": "dist", "backend": backend, "shape": shape, "axes": axes, "lead": lead, "data": data, "mask": mask, "mcls": mcls, "s": s}


def v_sub(a, b):
    return [a[0] - b[0], a[1] - b[1], a[2] - b[2]]


def v_cross(a, b):
    return [a[1] * b[2] - a[2] * b[1], a[2] * b[0] - a[0] * b[2], a[0] * b[1] - a[1] * b[0]]


def v_norm(a):
    return math.sqrt(a[0] * a[0] + a[1] * a[1] + a[2] * a[2])


def v_dot(a, b):
    return a[0] * b[0] + a[1] * b[1] + a[2] * b[2]


def apply_R(R, p):
    return [R[0] * p[0] + R[1] * p[1] + R[2] * p[2], R[3] * p[0] + R[4] * p[1] + R[5] * p[2], R[6] * p[0] + R[7] * p[1] + R[8] * p[2]]


def row_wellcond(row, plane, line, s):
    a, b, c = (row[k] for k in plane)
    v1, v2 = v_sub(b, a), v_sub(c, a)
    n = v_cross(v1, v2)
    if v_norm(v1) < 0.3 * s or v_norm(v2) < 0.3 * s or v_norm(n) < 0.2 * v_norm(v1) * v_norm(v2):
        return False
    n = [x / v_norm(n) for x in n]
    if abs(n[0]) > 0.9:
        return False          # the coded basis [1,0,0] x n vanishes when the normal is along x
    l = v_sub(row[line[1]], row[line[0]])
    inplane = v_sub(l, [v_dot(l, n) * x for x in n])
    return v_norm(inplane) >= 0.3 * s


def gen_rows3(rng, rows, N, plane, line, s, R, flat=False):
    """flat: the three plane points of every row share one z and run counter-clockwise seen from +z - the plane is already the
    X-Y plane, its normal exactly (0, 0, 1) (2-D key points lifted to 3-D)"""
    data = []
    for _ in range(rows):
        for attempt in range(200):
            row = [[r32(rng.uniform(-4, 4) * s) for _ in range(3)] for _ in range(N)]
            if flat:
                z0 = r32(rng.choice([0.0, 0.0, 1.0, rng.uniform(-4, 4) * s]))
                for k in plane:
                    row[k][2] = z0
                a, b, c = (row[k] for k in plane)
                if (b[0] - a[0]) * (c[1] - a[1]) - (b[1] - a[1]) * (c[0] - a[0]) < 0:
                    row[plane[1]], row[plane[2]] = row[plane[2]], row[plane[1]]
            if row_wellcond(row, plane, line, s) and row_wellcond([apply_R(R, p) for p in row], plane, line, s):
                break
        data += [x for p in row for x in p]
    return data


def gen_norm3d(rng):
    F, P = rng.randrange(1, 4), rng.randrange(1, 4)
    N = rng.randrange(4, 9)
    s = 10 ** rng.uniform(-1, 2)
    plane = rng.sample(range(N), 3)
    r = rng.random()
    if r < 0.7:
        l1 = plane[0] if rng.random() < 0.7 else rng.choice(plane[1:])
        lcls = "line-from-plane"
    else:
        l1 = rng.choice([k for k in range(N) if k not in plane])
        lcls = "line-off-plane"
    l2 = rng.choice([k for k in range(N) if k != l1])
    line = [l1, l2]
    R = rand_rotation(rng)
    flat = rng.random() < 0.15
    data = gen_rows3(rng, F * P, N, plane, line, s, R, flat=flat)
    mcls = rng.choice(["full", "full", "some", "some", "refs-some"])
    mask = gen_mask(rng, F, P, N, "full" if mcls == "full" else "some")
    if mcls == "some":
        for r_ in range(F * P):
            for k in plane + line:
                mask[r_ * N + k] = 0
    return {"kind": "norm3d", "dtype": rng.choice(["f64", "f64", "f32"]), "shape": [F, P, N], "data": data, "mask": mask,
            "mcls": mcls, "lcls": lcls, "plane": plane, "line": line, "size": rng.choice([1.0, 1.0, 100.0, 200.0, 0.5, r32(s)]),
            "xf": {"a": r32(10 ** rng.uniform(-1, 1)), "t": [r32(rng.uniform(-10, 10) * s) for _ in range(3)], "R": R}, "s": s}


def gen_hands3d(rng):
    fmt = rng.choice(["holistic", "holistic", "openpose", "openpose_135"])
    comps, edge = gen_header(rng, want=fmt, hands=True, unique=True)
    N = sum(len(c["points"]) for c in comps)
    F, P = rng.randrange(1, 3), rng.randrange(1, 3)
    s = 10 ** rng.uniform(-1, 1)
    data = [r32(rng.uniform(-4, 4) * s) for _ in range(F * P * N * 3)]
    mask = gen_mask(rng, F, P, N, rng.choice(["full", "some"]))
    return {"kind": "hands3d", "comps": comps, "hedge": edge, "fmt": fmt, "shape": [F, P, N], "data": data, "mask": mask, "s": s}


def gen_lookup(rng):
    comps, edge = gen_header(rng, hands=rng.random() < 0.3)
    return {"kind": "lookup", "comps": comps, "hedge": edge}


def gen_zrot(rng):
    s = 10 ** rng.uniform(-2, 2)
    a = rng.uniform(-math.pi, math.pi)
    r = rng.choice(["rand", "rand", "axis"])
    if r == "axis":
        v = rng.choice([[1.0, 0.0], [0.0, 1.0], [-1.0, 0.0], [0.0, -1.0], [1.0, 1.0], [-3.0, 4.0]])
    else:
        v = [r32(s * math.cos(a)), r32(s * math.sin(a))]
    return {"kind": "zrot", "v": v}


# ----------------------------------------------------------------------------------------------
class C13(common.Prop):
    ID = "C13"
    RUNNER = "c13"
    RUNNER_FLOATS = True
    ALLOWED_AXIOMS = set(common.REALS_AXIOMS)
    MODEL_FILES = ["base/Num.v", "base/Tensor.v", "model/C13_Normalize.v", "model/C13_Axes.v", "model/C13_Norm3d.v", "model/C13_Lookup.v", "model/C13_Run.v"]
    RULE = ("six structured streams: norm2 (Pose.normalize; F,P<=4, 2..8 points, D 1..4; NumPy float64 / float32 and TensorFlow float32 "
            "bodies; reference points given or looked up by format; masks: none / random / reference points missing in some rows / never "
            "jointly observed), dist (normalize_distribution + unnormalize_distribution over every leading block of axes, per-group offsets; "
            "25% over other axis tuples on extents 2..3, where the call either raises or silently misaligns), "
            "norm3d (PoseNormalizer; random plane / line choices incl. a line starting off the plane, float64 / float32), hands3d "
            "(normalize_hands_3d on holistic / openpose / openpose_135-shaped headers), lookup (headers incl. unknown format, missing "
            "component / point, duplicate names, another format's component first), zrot (SciPy rotation hypothesis); every numeric case "
            "carries a random similarity (scale 0.1..10, translation, 3-D rotation) on which the oracle re-runs the implementation. "
            "well-conditioned = reference points >= 0.3 s apart at coordinate scale s (|x| <= 4 s), plane points non-collinear "
            "(|sin| >= 0.2), |normal_x| <= 0.9, every distribution group has 0 or >= 2 observations >= 0.2 s apart; model and "
            "implementation are compared within 1e-4 x scale (float32 data) / 1e-9 x scale (float64 data). non-trivial = the case "
            "reaches the numeric code with at least one observed row (or, for lookups, a header with a known component); distinct by content hash " "Half of the by-name normalisations run on a pose derived by selection from a larger, already normalised pose; a single axis is also given as a bare Python / NumPy integer.")
    TRUSTED = ["Coq 8.16.1 kernel; Coq standard library Reals (three axioms listed in print_assumptions)",
               "harness/translate_c13.py (fail-closed ast translator)",
               "extraction: ExtrOcamlBasic, ExtrOCamlFloats, ExtrOCamlInt63; runner/driver.ml",
               "harness/c13.py: generators, tolerances, the plain-NumPy measurements of the oracle"]
    ASSUMPTIONS = ["PARTIAL: theorems are over exact reals (R_ops); the executed instance is binary64 (F_ops) and the implementation mixes "
                   "float32 / float64 with library summation order; agreement is checked within the stated tolerance on well-conditioned inputs only; "
                   "rounding, overflow and numpy's masked-division domain rule (|divisor| tiny) are not modelled",
                   "Rotation.from_euler('z', -(90 + degrees(arctan2(vy, vx))), degrees=True).as_matrix() is the z-rotation with "
                   "(cos, sin) = (-vy, -vx) / sqrt(vx^2 + vy^2): a Section hypothesis of the 3-D theorems, sampled by the zrot stream",
                   "the mask of a pose body is per point (stacked from the confidence), not per coordinate",
                   "numpy.ma / tf reductions compute the masked mean (sum of observed / count) and population deviation as modelled",
                   "numpy / tf broadcasting right-aligns the statistics returned by mean / std (no keepdims) as model/C13_Axes.v computes "
                   "(sampled on every dist case; leading_block_keys proves the aligned case); for other axis tuples see "
                   "distribution_nonleading_refuted; component names are unique where get_components is involved"]

    # ---- tie (a)
    def translate(self):
        return translate_c13.gen()

    def translate_outputs(self):
        return ["Gen_C13.v"]

    # ---- set-up
    def setup(self):
        import numpy.ma as ma
        import tensorflow as tf
        from pose_format import Pose
        from pose_format.numpy import NumPyPoseBody
        from pose_format.pose_header import PoseHeader, PoseHeaderComponent, PoseHeaderDimensions, PoseNormalizationInfo
        from pose_format.tensorflow.masked.tensor import MaskedTensor
        from pose_format.tensorflow.pose_body import TensorflowPoseBody
        from pose_format.utils.generic import normalize_hands_3d, pose_normalization_info
        from pose_format.utils.normalization_3d import PoseNormalizer
        self.m = dict(ma=ma, tf=tf, Pose=Pose, NumPyPoseBody=NumPyPoseBody, PoseHeader=PoseHeader, PoseHeaderComponent=PoseHeaderComponent,
                      PoseHeaderDimensions=PoseHeaderDimensions, Info=PoseNormalizationInfo, MaskedTensor=MaskedTensor,
                      TensorflowPoseBody=TensorflowPoseBody, normalize_hands_3d=normalize_hands_3d,
                      pose_normalization_info=pose_normalization_info, PoseNormalizer=PoseNormalizer)

    def gen_cases(self, rng, tier):
        n = 150 if tier == "quick" else 4000
        for _ in range(n):
            yield gen_norm2(rng)
            yield gen_norm2(rng)
            yield gen_norm2(rng)
            yield gen_dist(rng)
            yield gen_dist(rng)
            yield gen_norm3d(rng)
            yield gen_norm3d(rng)
            yield gen_hands3d(rng)
            yield gen_lookup(rng)
            yield gen_zrot(rng)

    def features(self, case):
        k = case["kind"]
        if k == "norm2":
            return (k, case["backend"], "D%d" % case["shape"][3], case["mcls"], case.get("hedge", "explicit"))
        if k == "dist":
            return (k, case["backend"], ("lead%d" % len(case["axes"])) if case["lead"] else "nonleading", case["mcls"])
        if k == "norm3d":
            return (k, case["dtype"], case["mcls"], case["lcls"])
        if k == "hands3d":
            return (k, case["fmt"], case["hedge"])
        if k == "lookup":
            return (k, case["hedge"])
        return (k,)

    def nontrivial(self, case):
        k = case["kind"]
        if k == "norm2":
            return case["mcls"] not in ("none-joint", "same-point") and case.get("hedge", "ok") in ("ok", "duplicate-component")
        if k in ("lookup", "hands3d"):
            return case["hedge"] != "unknown-format"
        return True

    # ---- builders
    def header(self, comps=None, N=None, D=2):
        m = self.m
        fmtstr = {1: "XC", 2: "XYC", 3: "XYZC", 4: "XYZWC"}[D]
        if comps is None:
            comps = [{"name": "c", "points": ["p%d" % i for i in range(N)]}]
        return m["PoseHeader"](0.2, m["PoseHeaderDimensions"](1, 1, 1),
                               [m["PoseHeaderComponent"](c["name"], list(c["points"]), [], [], fmtstr) for c in comps])

    def body(self, backend, shape, data, mask):
        """data: ndarray float64 of `shape`; mask: bool ndarray shape[:3] (True = missing)"""
        m = self.m
        D = shape[3]
        conf = (~mask).astype(np.float32)
        if backend == "tf32":
            tf = m["tf"]
            return m["TensorflowPoseBody"](30.0, m["MaskedTensor"](tf.constant(data.astype(np.float32)),
                                                                    tf.constant(np.repeat((~mask)[..., None], D, axis=-1))),
                                           tf.constant(conf))
        dt = np.float64 if backend == "np64" else np.float32
        return m["NumPyPoseBody"](30.0, m["ma"].masked_array(data.astype(dt), mask=np.repeat(mask[..., None], D, axis=-1)), conf)

    @staticmethod
    def dump(backend, d):
        """-> (values ndarray float64 incl. data under the mask, missing ndarray bool, same shape)"""
        if backend == "tf32":
            return d.tensor.numpy().astype(np.float64), ~d.mask.numpy().astype(bool)
        mk = np.ma.getmaskarray(d)
        return np.ma.getdata(d).astype(np.float64), mk.copy()

    @staticmethod
    def canon(vals, missing):
        """zero-filled values + mask, as lists"""
        v = np.where(missing, 0.0, vals)
        return {"mask": [int(x) for x in missing.reshape(-1)], "val": [canon_float(x) for x in v.reshape(-1)]}

    # ---- the implementation, one kind at a time.  Each returns the canonical output and keeps arrays for the oracle.
    def impl_norm2(self, case, data=None):
        m = self.m
        F, P, N, D = case["shape"]
        arr = np.array(case["data"] if data is None else data, dtype=np.float64).reshape(F, P, N, D)
        mask = np.array(case["mask"], dtype=bool).reshape(F, P, N)
        pose = m["Pose"](self.header(case.get("comps"), N, D), self.body(case["backend"], case["shape"], arr, mask))
        unique = "comps" in case and len({c["name"] for c in case["comps"]}) == len(case["comps"]) and \
            all(len(set(c["points"])) == len(c["points"]) and "zz_extra" not in c["points"] for c in case["comps"])
        if unique and (int(case["sf"] * 8) + N + F) % 2 == 1:          # names unique: selection by name is well defined (C11)
            # the pose under test is DERIVED: a larger pose (one extra point in front of every component, so that every reference
            # point sits at another index) is normalised first, then the case's components and points are selected from it.
            # What was resolved for the larger pose must not be used for the selection.
            try:
                sup_comps = [{"name": c["name"], "points": ["zz_extra"] + list(c["points"])} for c in case["comps"]]
                cols, k = [], 0
                for c in case["comps"]:
                    cols.append(None)
                    cols.extend(range(k, k + len(c["points"])))
                    k += len(c["points"])
                N2 = len(cols)
                arr2 = np.empty((F, P, N2, D), dtype=np.float64)
                mask2 = np.zeros((F, P, N2), dtype=bool)
                for q, src in enumerate(cols):
                    if src is None:
                        arr2[:, :, q] = 3.25 + q
                    else:
                        arr2[:, :, q] = arr[:, :, src]
                        mask2[:, :, q] = mask[:, :, src]
                sup = m["Pose"](self.header(sup_comps, N2, D), self.body(case["backend"], [F, P, N2, D], arr2, mask2))
                try:
                    sup.normalize(scale_factor=case["sf"])
                except Exception:
                    pass
                sup.body = self.body(case["backend"], [F, P, N2, D], arr2, mask2)
                derived = sup.get_components([c["name"] for c in case["comps"]], {c["name"]: list(c["points"]) for c in case["comps"]})
                if [c.name for c in derived.header.components] == [c["name"] for c in case["comps"]] and \
                        [list(c.points) for c in derived.header.components] == [list(c["points"]) for c in case["comps"]]:
                    pose = derived
            except Exception:
                pass
        try:
            if "comps" in case:
                pose.normalize(scale_factor=case["sf"])
            else:
                pose.normalize(m["Info"](case["i"], case["j"]), scale_factor=case["sf"])
        except Exception as e:
            return ("err", type(e).__name__), None
        vals, missing = self.dump(case["backend"], pose.body.data)
        return ("ok", self.canon(vals, missing)), (vals, missing)

    def impl_dist(self, case):
        F, P, N, D = case["shape"]
        arr = np.array(case["data"], dtype=np.float64).reshape(F, P, N, D)
        mask = np.array(case["mask"], dtype=bool).reshape(F, P, N)
        pose = self.m["Pose"](self.header(None, N, D), self.body(case["backend"], case["shape"], arr, mask))
        try:
            ax = tuple(case["axes"])
            if len(ax) == 1 and case["backend"] != "tf32":
                # NumPy bodies: a single axis may be given as a bare integer (Python or NumPy) or as a tuple - the same reduction
                form = (sum(case["shape"]) + len(case["data"])) % 3
                ax = [ax[0], np.int64(ax[0]), ax][form]
            mu, std = pose.normalize_distribution(axis=ax)
            v1, m1 = self.dump(case["backend"], pose.body.data)
            mv, mm = self.dump(case["backend"], mu)
            sv, sm = self.dump(case["backend"], std)
            pose.unnormalize_distribution(mu, std)
            v2, m2 = self.dump(case["backend"], pose.body.data)
        except Exception as e:
            return ("err", type(e).__name__), None
        out = {"normalized": self.canon(v1, m1), "mu": self.canon(mv, np.broadcast_to(mm, mv.shape)),
               "std": self.canon(sv, np.broadcast_to(sm, sv.shape)), "restored": self.canon(v2, m2)}
        return ("ok", out), (v1, m1, v2, m2)

    def impl_norm3d(self, case, data=None, rows=None):
        m = self.m
        F, P, N = case["shape"]
        arr = np.array(case["data"] if data is None else data, dtype=np.float64).reshape(F, P, N, 3)
        mask = np.array(case["mask"], dtype=bool).reshape(F, P, N)
        if rows is not None:
            arr = arr.reshape(F * P, 1, N, 3)[rows]
            mask = mask.reshape(F * P, 1, N)[rows]
        dt = np.float64 if case["dtype"] == "f64" else np.float32
        d = m["ma"].masked_array(arr.astype(dt), mask=np.repeat(mask[..., None], 3, axis=-1))
        nz = m["PoseNormalizer"](m["Info"](*case["plane"]), m["Info"](case["line"][0], case["line"][1]), case["size"])
        try:
            out = nz(d)
        except Exception as e:
            return ("err", type(e).__name__), None
        vals, missing = self.dump("np", out)
        return ("ok", self.canon(vals, missing)), (vals, missing)

    def impl_hands3d(self, case):
        m = self.m
        F, P, N = case["shape"]
        arr = np.array(case["data"], dtype=np.float64).reshape(F, P, N, 3)
        mask = np.array(case["mask"], dtype=bool).reshape(F, P, N)
        pose = m["Pose"](self.header(case["comps"], N, 3), self.body("np64", [F, P, N, 3], arr, mask))
        try:
            m["normalize_hands_3d"](pose)
        except Exception as e:
            return ("err", type(e).__name__), None
        vals, missing = self.dump("np", pose.body.data)
        return ("ok", {"shape": list(vals.shape), **self.canon(vals, missing)}), (vals, missing)

    def impl_lookup(self, case):
        try:
            info = self.m["pose_normalization_info"](self.header(case["comps"], None, 2))
            return ("ok", [int(info.p1), int(info.p2)]), None
        except Exception as e:
            return ("err", type(e).__name__), None

    def impl_zrot(self, case):
        m = self.m
        nz = m["PoseNormalizer"](m["Info"](0, 1, 2), m["Info"](0, 1), 1.0)
        vx, vy = case["v"]
        pose = m["ma"].masked_array(np.array([[[0.0, 0.0, 0.0], [vx, vy, 0.7], [1.0, 0.0, 0.0], [0.0, 1.0, 0.0], [0.0, 0.0, 1.0]]]))
        ang = nz.get_rotation_angle(pose)
        rot = nz.rotate(pose, ang)
        M = np.array(np.ma.getdata(rot))[0, 2:5].T        # columns = images of e_x, e_y, e_z
        return ("ok", [canon_float(x) for x in M.reshape(-1)]), None

    def run_impl(self, case):
        k = case["kind"]
        out, keep = getattr(self, "impl_" + k)(case)
        case["_impl"] = out
        case["_keep"] = keep
        return out

    # ---- the model
    @staticmethod
    def rows_tree(shape, data, mask):
        F, P, N, D = shape
        rows = []
        for r in range(F * P):
            row = []
            for p in range(N):
                base = (r * N + p) * D
                row.append([int(mask[r * N + p]), [f2b(x) for x in data[base:base + D]]])
            rows.append(row)
        return rows

    @staticmethod
    def rows_untree(t):
        mask, val = [], []
        for row in t:
            for p in row:
                mask += [int(p[0])] * len(p[1])
                val += [0.0 if p[0] else canon_float(b2f(x)) for x in p[1]]
        return {"mask": mask, "val": val}

    @staticmethod
    def header_tree(comps):
        return [[cps(c["name"]), [cps(p) for p in c["points"]]] for c in comps]

    @staticmethod
    def result(t, f):
        return ("ok", f(t[1])) if t[0] == 1 else ("err", "model-%d" % t[1])

    def run_model(self, case, runner):
        k = case["kind"]
        if k == "norm2":
            F, P, N, D = case["shape"]
            if "comps" in case:
                r = self.result(runner.ask([5, self.header_tree(case["comps"])]), lambda x: [int(x[0]), int(x[1])])
                if r[0] == "err":
                    return r
                i, j = r[1]
            else:
                i, j = case["i"], case["j"]
            if i >= N or j >= N:
                return ("err", "model-index")
            t = runner.ask([1, D, i, j, f2b(case["sf"]), self.rows_tree(case["shape"], case["data"], case["mask"])])
            out = self.rows_untree(t)
            return ("ok", out)
        if k == "dist":
            F, P, N, D = case["shape"]
            cells = [[int(case["mask"][c // D]), f2b(x)] for c, x in enumerate(case["data"])]
            unc = lambda l: {"mask": [int(c[0]) for c in l], "val": [0.0 if c[0] else canon_float(b2f(c[1])) for c in l]}
            # any axis tuple: grouping and broadcasting computed by the model from shape and axis
            r8 = runner.ask([8, list(case["shape"]), list(case["axes"]), cells])
            if r8[0] != 1:
                return ("err", "model-broadcast")
            t = r8[1]
            t2 = runner.ask([9, list(case["shape"]), list(case["axes"]), t[0], t[1], t[2]])
            out = {"normalized": unc(t[0]), "mu": unc(t[1]), "std": unc(t[2]), "restored": unc(t2)}
            if case["lead"]:
                # a leading block of axes is the grouping i mod G the theorems are instantiated with: both routes must agree
                G = int(np.prod(case["shape"][len(case["axes"]):]))
                u = runner.ask([2, G, cells])
                u2 = runner.ask([3, G, u[0], u[1], u[2]])
                if [u[0], u[1], u[2], u2] != [t[0], t[1], t[2], t2]:
                    return ("ok", {"normalized": {"mask": [], "val": []}, "mu": {"mask": [], "val": []}, "std": {"mask": [], "val": []},
                                   "restored": {"mask": [], "val": []}, "axis-model-mismatch": True})
            return ("ok", out)
        if k == "norm3d":
            F, P, N = case["shape"]
            t = runner.ask([4] + list(case["plane"]) + list(case["line"]) + [f2b(case["size"]),
                           self.rows_tree([F, P, N, 3], case["data"], case["mask"])])
            return ("ok", self.rows_untree(t))
        if k == "hands3d":
            F, P, N = case["shape"]
            r = self.result(runner.ask([6, self.header_tree(case["comps"])]), lambda x: x)
            if r[0] == "err":
                return r
            # pose.get_components([name]) selects the points of that component (header order); the normalised copy is appended
            offs, o = {}, 0
            for c in case["comps"]:
                offs.setdefault(c["name"], (o, len(c["points"])))
                o += len(c["points"])
            fmt = detect_ref([c["name"] for c in case["comps"]])
            arr = np.array(case["data"]).reshape(F * P, N, 3)
            msk = np.array(case["mask"]).reshape(F * P, N)
            vals = [arr]
            masks = [msk]
            for side, cname in enumerate(HANDS[fmt][0]):
                (pl, ln) = r[1][side]
                o, n = offs[cname]
                sub = arr[:, o:o + n].reshape(-1)
                subm = msk[:, o:o + n].reshape(-1)
                t = runner.ask([4] + [int(x) for x in pl] + [int(x) for x in ln] + [f2b(1.0), self.rows_tree([F, P, n, 3], [float(x) for x in sub], [int(x) for x in subm])])
                u = self.rows_untree(t)
                vals.append(np.array([0.0 if x == "nan" else x for x in u["val"]]).reshape(F * P, n, 3))
                masks.append(np.array(u["mask"]).reshape(F * P, n, 3)[..., 0])
                if any(x == "nan" for x in u["val"]):
                    case["_model_nan"] = True
            V = np.concatenate(vals, axis=1)
            M = np.concatenate(masks, axis=1).astype(bool)
            M3 = np.repeat(M[..., None], 3, axis=-1)
            # normalize_component_3d ends with .astype(np.float32)
            V = V.astype(np.float32).astype(np.float64)
            return ("ok", {"shape": [F, P, V.shape[1], 3], **self.canon(V, M3)})
        if k == "lookup":
            return self.result(runner.ask([5, self.header_tree(case["comps"])]), lambda x: [int(x[0]), int(x[1])])
        if k == "zrot":
            t = runner.ask([7, f2b(case["v"][0]), f2b(case["v"][1])])
            c, s = b2f(t[0]), b2f(t[1])
            return ("ok", [canon_float(x) for x in [c, -s, 0.0, s, c, 0.0, 0.0, 0.0, 1.0]])
        return None

    # ---- comparison
    def tol(self, case):
        k = case["kind"]
        if k == "norm2":
            return (TOL64 if case["backend"] == "np64" else TOL32) * max(abs(case["sf"]), 1e-3)
        if k == "dist":
            return (TOL64 if case["backend"] == "np64" else TOL32)
        if k == "norm3d":
            return (TOL64 if case["dtype"] == "f64" else TOL32) * case["size"]
        if k == "hands3d":
            return TOL32
        return 1e-12

    def wellcond(self, case):
        k = case["kind"]
        if k == "norm2":
            return case["mcls"] in ("full", "some", "refs-some")
        if k == "dist":
            return case["mcls"] != "degenerate"
        return True

    def compare(self, case, impl_out, model_out):
        if impl_out[0] != model_out[0]:
            return "implementation %s, model %s" % (impl_out[:2] if impl_out[0] == "err" else "ok", model_out[:2] if model_out[0] == "err" else "ok")
        if impl_out[0] == "err":
            return None
        a, b = impl_out[1], model_out[1]
        k = case["kind"]
        tol = self.tol(case)
        if k == "lookup":
            return None if a == b else "indices differ: implementation %s, model %s" % (a, b)
        if k == "zrot":
            return None if close(a, b, 1e-12) else "rotation matrix differs from the hypothesis by %.3g" % maxdiff(a, b)
        if k == "dist":
            if b.get("axis-model-mismatch"):
                return "model: grouping by i mod G and the axis model (shape, axis) disagree on a leading block of axes"
            for part in ("normalized", "mu", "std", "restored"):
                if a[part]["mask"] != b[part]["mask"]:
                    if not self.wellcond(case):
                        continue
                    return "%s: masks differ" % part
                t = tol * (case["s"] if part in ("mu", "std", "restored") else 1.0) * (30 if part == "restored" else 1)
                if self.wellcond(case) and not close(a[part]["val"], b[part]["val"], t):
                    return "%s: values differ by %.3g (tolerance %.3g)" % (part, maxdiff(a[part]["val"], b[part]["val"]), t)
            return None
        if k == "hands3d" and a["shape"] != b["shape"]:
            return "shapes differ: %s / %s" % (a["shape"], b["shape"])
        if a["mask"] != b["mask"]:
            return "masks differ"
        if k == "hands3d":
            # random hands are not conditioned: compare where the model is finite and moderate
            if case.get("_model_nan"):
                return None
            big = max([abs(x) for x in b["val"] if x != "nan"] + [1.0])
            tol = TOL32 * big * 50
        if not self.wellcond(case):
            return None
        if not close(a["val"], b["val"], tol):
            return "values differ by %.3g (tolerance %.3g)" % (maxdiff(a["val"], b["val"]), tol)
        return None

    # ---- the direct oracle: the property statement measured on the implementation alone
    def oracle(self, case):
        k = case["kind"]
        out = case.get("_impl")
        if out is None:
            return None
        return getattr(self, "oracle_" + k)(case, out, case.get("_keep"))

    def oracle_norm2(self, case, out, keep):
        F, P, N, D = case["shape"]
        if "comps" in case:
            exp = self.expected_lookup(case["comps"])
            if (exp[0] == "err") != (out[0] == "err"):
                return {"what": "normalize() by format: implementation %s, reference lookup %s" % (out[0], exp[0]), "clause": "lookup"}
            if out[0] == "err":
                return None
            i, j = exp[1]
        else:
            i, j = case["i"], case["j"]
            if out[0] == "err":
                return {"what": "normalize raised %s" % out[1], "clause": "raises"} if self.wellcond(case) else None
        if not self.wellcond(case):
            return None
        vals, missing = keep
        tol = self.tol(case) * 10
        inmask = np.repeat(np.array(case["mask"], dtype=bool).reshape(F, P, N)[..., None], D, axis=-1)
        if not np.array_equal(missing, inmask):
            return {"what": "normalize changed the mask: %d entries differ" % int((missing != inmask).sum()), "clause": "mask"}
        obs = ~(missing[:, :, i, 0] | missing[:, :, j, 0])
        p1, p2 = vals[:, :, i][obs], vals[:, :, j][obs]
        md = float(np.sqrt(((p1 - p2) ** 2).sum(-1)).mean())
        if abs(md - abs(case["sf"])) > tol:
            return {"what": "mean distance between the reference points is %.9g, requested scale %.9g" % (md, case["sf"]), "clause": "post-distance"}
        mid = ((p1 + p2) / 2).mean(axis=0)
        if np.abs(mid).max() > tol:
            return {"what": "mean midpoint of the reference points is %s, not the origin" % mid.tolist(), "clause": "post-midpoint"}
        # invariance under translation and uniform positive scaling
        a, t = case["xf"]["a"], case["xf"]["t"]
        x = np.array(case["data"]).reshape(F, P, N, D) * a + np.array(t)
        out2, keep2 = self.impl_norm2(case, data=x.reshape(-1).tolist())
        if out2[0] == "err":
            return {"what": "normalize raised %s on the transformed copy" % out2[1], "clause": "invariance"}
        d = maxdiff(out[1]["val"], out2[1]["val"])
        if out[1]["mask"] != out2[1]["mask"] or d > tol * 20:
            return {"what": "output changes by %.3g when the input is scaled by %g and translated by %s" % (d, a, t), "clause": "invariance"}
        return None

    def oracle_dist(self, case, out, keep):
        if out[0] == "err":
            # a loud failure is allowed for axis tuples whose statistics cannot be broadcast back
            return {"what": "normalize_distribution raised %s" % out[1], "clause": "raises"} if case["lead"] else None
        if not self.wellcond(case):
            return None
        F, P, N, D = case["shape"]
        v1, m1, v2, m2 = keep
        ax = tuple(case["axes"])
        inmask = np.repeat(np.array(case["mask"], dtype=bool).reshape(F, P, N)[..., None], D, axis=-1)
        if v1.shape != inmask.shape:
            return {"what": "normalize_distribution over axes %s changed the shape of the data to %s" % (ax, list(v1.shape)), "clause": "dist-shape"}
        if not (np.array_equal(m1, inmask) and np.array_equal(m2, inmask)):
            return {"what": "normalize_distribution / unnormalize_distribution changed the mask", "clause": "mask"}
        tol = self.tol(case) * 50
        cnt = (~m1).sum(axis=ax)
        w = np.where(m1, 0.0, v1)
        with np.errstate(all="ignore"):
            mean = w.sum(axis=ax) / cnt
            dev = np.sqrt((np.where(m1, 0.0, (v1 - np.expand_dims(mean, ax)) ** 2)).sum(axis=ax) / cnt)
        ok = cnt > 0
        if np.abs(mean[ok]).max(initial=0) > tol:
            return {"what": "mean over axes %s after normalize_distribution is %.3g" % (ax, float(np.abs(mean[ok]).max())), "clause": "dist-mean"}
        if np.abs(dev[ok] - 1).max(initial=0) > tol:
            return {"what": "deviation over axes %s after normalize_distribution is off 1 by %.3g" % (ax, float(np.abs(dev[ok] - 1).max())), "clause": "dist-std"}
        orig = np.array(case["data"]).reshape(F, P, N, D)
        d = np.abs(np.where(inmask, 0.0, v2 - orig)).max(initial=0)
        if d > tol * case["s"] * 30:
            return {"what": "unnormalize_distribution does not restore the original: off by %.3g" % float(d), "clause": "unnormalize"}
        # the caller supplies the mean (another recording's) and leaves the deviation to be computed: the deviation is the data's
        # own - unit deviation about the data's own mean after the call - and the returned statistics still restore the original
        if case["lead"]:
            ext = self.impl_dist_external_mean(case)
            if ext is not None:
                if ext[0] == "err":
                    return {"what": "normalize_distribution(mu=<given>) raised %s" % ext[1], "clause": "dist-given-mean-raises"}
                e1, em, e2 = ext[1]
                w = np.where(em, 0.0, e1)
                with np.errstate(all="ignore"):
                    mean = w.sum(axis=ax) / cnt
                    dev = np.sqrt((np.where(em, 0.0, (e1 - np.expand_dims(mean, ax)) ** 2)).sum(axis=ax) / cnt)
                if e1.shape == inmask.shape and np.abs(dev[ok] - 1).max(initial=0) > tol:
                    return {"what": "with a given mean and a computed deviation the deviation over axes %s is off 1 by %.3g"
                                    % (ax, float(np.abs(dev[ok] - 1).max())), "clause": "dist-std-given-mean"}
                d = np.abs(np.where(inmask, 0.0, e2 - orig)).max(initial=0) if e2.shape == orig.shape else float("inf")
                if d > tol * case["s"] * 30:
                    return {"what": "with a given mean unnormalize_distribution does not restore the original: off by %.3g" % float(d),
                            "clause": "unnormalize-given-mean"}
        return None

    def impl_dist_external_mean(self, case):
        F, P, N, D = case["shape"]
        arr = np.array(case["data"], dtype=np.float64).reshape(F, P, N, D)
        mask = np.array(case["mask"], dtype=bool).reshape(F, P, N)
        try:
            ax = tuple(case["axes"])
            p0 = self.m["Pose"](self.header(None, N, D), self.body(case["backend"], case["shape"], arr, mask))
            mu0, _ = p0.normalize_distribution(axis=ax)
            mu_ext = mu0 + 0.37 * case["s"]
            pose = self.m["Pose"](self.header(None, N, D), self.body(case["backend"], case["shape"], arr, mask))
        except Exception:
            return None
        try:
            mu, std = pose.normalize_distribution(mu=mu_ext, axis=ax)
            v1, m1 = self.dump(case["backend"], pose.body.data)
            pose.unnormalize_distribution(mu, std)
            v2, _ = self.dump(case["backend"], pose.body.data)
        except Exception as e:
            return ("err", type(e).__name__)
        return ("ok", (v1, m1, v2))

    def measure3d(self, case, vals, missing, rows_ok, tol):
        """post-conditions of the 3-D normaliser on the rows whose reference points are observed"""
        F, P, N = case["shape"]
        V = vals.reshape(F * P, N, 3)
        pl, ln, size = case["plane"], case["line"], case["size"]
        for r in range(F * P):
            if not rows_ok[r]:
                continue
            if np.abs(V[r, ln[0]]).max() > tol:
                return {"what": "row %d: first line point is at %s, not the origin" % (r, V[r, ln[0]].tolist()), "clause": "post-origin"}
            if ln[0] in pl and np.abs(V[r, pl, 2]).max() > tol:
                return {"what": "row %d: plane points have z = %s" % (r, V[r, pl, 2].tolist()), "clause": "post-plane"}
            e = V[r, ln[1]]
            if abs(e[0]) > tol or not e[1] < 0:
                return {"what": "row %d: line end projects to (%.6g, %.6g), not on the negative y axis" % (r, e[0], e[1]), "clause": "post-line-axis"}
            if abs(float(np.linalg.norm(e)) - size) > tol:
                return {"what": "row %d: line has length %.9g, requested %.9g" % (r, float(np.linalg.norm(e)), size), "clause": "post-line-length"}
        return None

    def oracle_norm3d(self, case, out, keep):
        if out[0] == "err":
            return {"what": "PoseNormalizer raised %s" % out[1], "clause": "raises"}
        F, P, N = case["shape"]
        vals, missing = keep
        tol = self.tol(case) * 100
        m = np.array(case["mask"], dtype=bool).reshape(F * P, N)
        refs = list(case["plane"]) + list(case["line"])
        rows_ok = ~m[:, refs].any(axis=1)
        mm = missing.reshape(F * P, N, 3)
        # missing points stay missing, observed points of rows with observed references stay observed
        for r in range(F * P):
            # rows whose reference points are not all observed are outside the quantifier: there only "missing stays missing"
            bad = (not np.array_equal(mm[r, :, 0], m[r])) if rows_ok[r] else bool((m[r] & ~mm[r, :, 0]).any())
            if bad or not np.array_equal(mm[r, :, 0], mm[r, :, 2]):
                return {"what": "row %d: output mask %s, input mask %s" % (r, mm[r, :, 0].astype(int).tolist(), m[r].astype(int).tolist()), "clause": "mask"}
        f = self.measure3d(case, vals, missing, rows_ok, tol)
        if f:
            return f
        # independently for every frame and person: a row normalised alone gives the same row
        for r in range(F * P):
            o1, k1 = self.impl_norm3d(case, rows=[r])
            if o1[0] == "err" or np.abs(np.where(k1[1], 0, k1[0]).reshape(N, 3) - np.where(mm[r], 0, vals.reshape(F * P, N, 3)[r])).max() > tol:
                return {"what": "row %d normalised alone differs from the batch result" % r, "clause": "independence"}
        a, t, R = case["xf"]["a"], case["xf"]["t"], case["xf"]["R"]
        X = np.array(case["data"]).reshape(-1, 3)
        # invariance is claimed for the rows whose reference points are observed
        sel = np.repeat(rows_ok, N * 3)

        def differs(o):
            if o[0] == "err":
                return float("inf")
            if [m_ for m_, k_ in zip(o[1]["mask"], sel) if k_] != [m_ for m_, k_ in zip(out[1]["mask"], sel) if k_]:
                return float("inf")
            return maxdiff([v for v, k_ in zip(o[1]["val"], sel) if k_], [v for v, k_ in zip(out[1]["val"], sel) if k_])

        o2, _ = self.impl_norm3d(case, data=(X * a + np.array(t)).reshape(-1).tolist())
        if differs(o2) > tol * 5:
            return {"what": "output changes by %.3g under translation by %s and uniform scaling by %g" % (differs(o2), t, a), "clause": "invariance-translation-scale"}
        Rm = np.array(R).reshape(3, 3)
        o3, _ = self.impl_norm3d(case, data=(X @ Rm.T).reshape(-1).tolist())
        if differs(o3) > tol * 5:
            return {"what": "output changes by %.3g when the input is rotated (rotation matrix %s)" % (differs(o3), [round(x, 4) for x in R]),
                    "clause": "invariance-rotation"}
        return None

    def expected_lookup(self, comps):
        fmt = detect_ref([c["name"] for c in comps])
        if fmt is None:
            return ("err", "format")
        c0, a, b = SHOULDERS[fmt]
        first = next((c for c in comps if c["name"] == c0), None)
        if first is None or a not in first["points"] or b not in first["points"]:
            return ("err", "name")
        off = 0
        for c in comps:
            if c is first:
                break
            off += len(c["points"])
        return ("ok", [off + first["points"].index(a), off + first["points"].index(b)])

    def oracle_lookup(self, case, out, keep):
        exp = self.expected_lookup(case["comps"])
        if exp[0] != out[0] or (exp[0] == "ok" and exp[1] != out[1]):
            return {"what": "pose_normalization_info gives %s, the shoulders of the detected format are at %s" % (out[:2], exp[:2]), "clause": "lookup"}
        return None

    def oracle_hands3d(self, case, out, keep):
        fmt = detect_ref([c["name"] for c in case["comps"]])
        resolvable = fmt in HANDS and all(
            any(c["name"] == h and all(p in c["points"] for p in HANDS[fmt][1] + HANDS[fmt][2]) for c in case["comps"]) for h in HANDS[fmt][0])
        if (out[0] == "ok") != bool(resolvable):
            return {"what": "normalize_hands_3d %s although the hand reference points %s" % (
                "raised " + out[1] if out[0] == "err" else "succeeded", "resolve" if resolvable else "do not resolve"), "clause": "lookup"}
        if out[0] == "err":
            return None
        F, P, N = case["shape"]
        vals, missing = keep
        if vals.shape[2] != N + sum(len(c["points"]) for c in case["comps"] if c["name"] in HANDS[fmt][0]):
            return {"what": "normalize_hands_3d appended %d points" % (vals.shape[2] - N), "clause": "hands-shape"}
        return None

    def oracle_zrot(self, case, out, keep):
        if out[0] == "err":
            return {"what": "rotate raised %s" % out[1], "clause": "raises"}
        vx, vy = case["v"]
        r = math.hypot(vx, vy)
        c, s = -vy / r, -vx / r
        exp = [c, -s, 0.0, s, c, 0.0, 0.0, 0.0, 1.0]
        if not close(out[1], exp, 1e-12):
            return {"what": "Rotation.from_euler('z', -(90 + atan2)) is not the rotation with (cos, sin) = (-vy, -vx)/r: off by %.3g" % maxdiff(out[1], exp), "clause": "zrot-hypothesis"}
        return None

    def classify(self, case, failure):
        k = case["kind"]
        clause = failure.get("clause", "unclassified")
        if k == "norm3d" and clause == "invariance-rotation":
            return "norm3d-rotation-invariance"
        if k == "norm3d" and case.get("mcls") == "normal-along-x":
            return "norm3d-normal-along-x"
        if k == "dist" and not case.get("lead", True):
            return "dist-non-leading-axes"       # mean / deviation / mask / restore: all consequences of the misaligned broadcast
        b = case.get("backend") or case.get("dtype") or ""
        return "%s-%s-%s" % (k, clause, b)


PROP = C13
