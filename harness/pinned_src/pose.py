from copy import deepcopy
from io import BytesIO
from itertools import chain
from typing import BinaryIO, Dict, List, Tuple, Type, Union

import numpy as np
import numpy.ma as ma
from pose_format.numpy import NumPyPoseBody
from pose_format.pose_body import PoseBody
from pose_format.pose_header import (PoseHeader, PoseHeaderComponent,
                                     PoseHeaderDimensions,
                                     PoseNormalizationInfo, PoseHeaderCache)
from pose_format.utils.fast_math import distance_batch
from pose_format.utils.reader import BufferReader, BytesIOReader



class Pose:
    """
    File IO for '.pose' file format, including the header and body.
    
    Parameters
    ----------
    header : PoseHeader
        Header information for the pose.
    body : PoseBody
        Body data for the pose.
    """

    def __init__(self, header: PoseHeader, body: PoseBody):
        self.header = header
        self.body = body

    @staticmethod
    def read(buffer: Union[bytes, BytesIO], pose_body: Type[PoseBody] = NumPyPoseBody, **kwargs):
        """
        Read Pose object from buffer.

        Parameters
        ----------
        buffer : bytes
            The input buffer.
        pose_body : Type[PoseBody], optional
            The type of pose body to be read. Defaults to NumPyPoseBody.

        Returns
        -------
        Pose
            Pose object.
        """

        # Use BytesIO reader optimization only when start/end is specified, otherwise, it is faster to read from buffer
        if isinstance(buffer, bytes):
            reader = BufferReader(buffer)
        else:
            if any(kwargs.get(key, None) is not None for key in ("start_frame", "end_frame", "start_time", "end_time")):
                reader = BytesIOReader(buffer)
            else:
                reader = BufferReader(buffer.read())

        reader.expect_to_read((PoseHeaderCache.end_offset or 10 * 1024) + 100) # Expect to read the header at least (or 10kb)
        header = PoseHeader.read(reader)
        body = pose_body.read(header, reader, **kwargs)

        return Pose(header, body)

    def write(self, buffer: BinaryIO):
        """
        Write Pose object to buffer.

        Parameters
        ----------
        buffer : BinaryIO
            buffer
        """

        # Sanity check: The body should have 4 dimensions
        if len(self.body.data.shape) != 4:
            raise ValueError(f"Body data should have 4 dimensions, not {len(self.body.data.shape)}")

        # Sanity check: Body should have as many dimensions as header
        header_dims = self.header.num_dims()
        body_dims = self.body.data.shape[-1]
        if header_dims != body_dims:
            raise ValueError(f"Header has {header_dims} dimensions, but body has {body_dims}")

        # Sanity check: Body should have as many points as header
        header_points = self.header.total_points()
        body_points = self.body.data.shape[2]
        if header_points != body_points:
            raise ValueError(f"Header has {header_points} points, but body has {body_points}")

        # Sanity check: Confidence should have the shape of the data without the dimensions axis
        if tuple(self.body.confidence.shape) != tuple(self.body.data.shape[:3]):
            raise ValueError(f"Confidence has shape {tuple(self.body.confidence.shape)}, "
                             f"but data has shape {tuple(self.body.data.shape)}")

        self.header.write(buffer)
        self.body.write(self.header.version, buffer)

    def focus(self):
        """
        Gets the pose to start at (0,0) and have dimensions as big as needed
        """
        mins = ma.min(self.body.data, axis=(0, 1, 2))
        maxs = ma.max(self.body.data, axis=(0, 1, 2))

        if np.count_nonzero(mins) > 0:  # Only translate if there is a number to translate by
            self.body.data = ma.subtract(self.body.data, mins)

        dimensions = (maxs - mins).tolist()
        self.header.dimensions = PoseHeaderDimensions(*dimensions)

    def normalize(self, info: Union[PoseNormalizationInfo,None]=None, scale_factor: float = 1) -> "Pose":
        """
        Normalize the points to a fixed distance between two particular points.

        Parameters
        ----------
        info : PoseNormalizationInfo
            Information for normalization.
        scale_factor : float, optional
            Scaling factor. Defaults to 1.

        Returns
        -------
        Pose
            The normalized Pose object.
        """
        if info is None:
            from pose_format.utils.generic import pose_normalization_info
            info = pose_normalization_info(self.header)

        transposed = self.body.points_perspective()

        p1s = transposed[info.p1]
        p2s = transposed[info.p2]

        # Move all points so center is (0,0)
        center = ((p2s + p1s) / 2).mean(axis=(0, 1))

        self.body.data -= center

        mean_distance = distance_batch(p1s, p2s).mean()

        # scale all points to dist/scale
        scale = scale_factor / mean_distance

        self.body.data = self.body.data * scale

        return self

    def normalize_distribution(self, mu=None, std=None, axis=(0, 1)):
        """
        Normalize points distribution.

        Parameters
        ----------
        mu : np.ndarray, optional
            Mean values for normalization. If None, it will be computed.
        std : np.ndarray, optional
            Standard deviation values for normalization. If None, it will be computed.
        axis : tuple of int, optional
            Axes for mean and std computation. Defaults to (0, 1).

        Returns
        -------
        tuple of np.ndarray
            Calculated mean and standard deviation.
        """

        mu = mu if mu is not None else self.body.data.mean(axis=axis)
        std = std if std is not None else self.body.data.std(axis=axis)

        self.body.data = (self.body.data - mu) / std

        return mu, std

    def unnormalize_distribution(self, mu, std):
        """
        Given mean, standard deviationn unnormalization applied to the pose points distribution.

        Parameters
        ----------
        mu : np.ndarray
            The mean values used for normalization.
        std : np.ndarray
            The standard deviation values used for normalization.
        """
        self.body.data = (self.body.data * std) + mu

    def frame_dropout_uniform(self, dropout_min: float = 0.2, dropout_max: float = 1.0) -> Tuple["Pose", List[int]]:
        """
        Perform uniform frame dropout on Pose

        Parameters
        ----------
        dropout_min : float, optional
            Minimum dropout value. Defaults to 0.2.
        dropout_max : float, optional
            Maximum dropout value. Defaults to 1.0.

        Returns
        -------
        tuple
            a tuple containing Pose with dropped frames and a list of selected indexes.
        """
        body, selected_indexes = self.body.frame_dropout_uniform(dropout_min=dropout_min, dropout_max=dropout_max)
        return Pose(header=self.header, body=body), selected_indexes

    def frame_dropout_normal(self, dropout_mean: float = 0.5, dropout_std: float = 0.1) -> Tuple["Pose", List[int]]:
        """
        Normal frame dropout on Pose.

        Parameters
        ----------
        dropout_mean : float, optional
            Mean value for dropout. Defaults to 0.5.
        dropout_std : float, optional
            Standard deviation for dropout. Defaults to 0.1.

        Returns
        -------
        tuple
            a tuple with Pose of dropped frames and a list of selected indexes.
        """
        body, selected_indexes = self.body.frame_dropout_normal(dropout_mean=dropout_mean, dropout_std=dropout_std)
        return Pose(header=self.header, body=body), selected_indexes
    
    
    def remove_components(self, components_to_remove: Union[str, List[str]], points_to_remove: Union[Dict[str, List[str]],None] = None):
        
        if isinstance(components_to_remove, str):
            components_to_remove = [components_to_remove]

        components_to_keep = []
        points_dict = {}

        for component in self.header.components:
            if component.name not in components_to_remove:
                components_to_keep.append(component.name)
                if points_to_remove:
                    points_to_remove_list = points_to_remove.get(component.name, []) 
                    points_dict[component.name] = [point for point in component.points if point not in points_to_remove_list]
                else:
                    points_dict[component.name] = component.points[:]

        return self.get_components(components_to_keep, points_dict)
        
    

    def get_components(self, components: List[str], points: Union[Dict[str, List[str]],None] = None):
        """
        get pose components based on criteria.

        Parameters
        ----------
        components : List[str]
            List of component names to get.
        points : Dict[str, List[str]], optional
            Mapping of component names to lists of point names to get.

        Returns
        -------
        Pose
            Pose object containing new components
        """
        indexes = {}
        new_components = {}

        idx = 0
        for component in self.header.components:
            if component.name in components:
                new_component = PoseHeaderComponent(component.name, component.points, component.limbs, component.colors,
                                                    component.format)
                if points is not None and component.name in points:  # copy and permute points
                    new_component.points = points[component.name]
                    point_index_mapping = {
                        component.points.index(point): i for i, point in enumerate(new_component.points)
                    }
                    old_indexes_set = set(point_index_mapping.keys())
                    new_component.limbs = [(point_index_mapping[l1], point_index_mapping[l2])
                                           for l1, l2 in component.limbs
                                           if l1 in old_indexes_set and l2 in old_indexes_set]

                    indexes[component.name] = [idx + component.points.index(p) for p in new_component.points]
                else:  # Copy component as is
                    indexes[component.name] = list(range(idx, len(component.points) + idx))

                new_components[component.name] = new_component

            idx += len(component.points)

        new_components_order = [new_components[c] for c in components]
        indexes_order = [indexes[c] for c in components]

        new_header = PoseHeader(self.header.version, self.header.dimensions, new_components_order)
        flat_indexes = list(chain.from_iterable(indexes_order))
        new_body = self.body.get_points(flat_indexes)

        return Pose(header=new_header, body=new_body)
    

    def copy(self):
        return self.__class__(deepcopy(self.header), self.body.copy())

    def bbox(self):
        """
        Calculates bounding box for Pose.

        Returns
        -------
        Pose
            Pose object representing bounding box (bbox).
        """
        body = self.body.bbox(self.header)
        header = self.header.bbox()
        return Pose(header=header, body=body)

    pass_through_methods = {
        "augment2d",  # Augment 2D points
        "flip",  # Flip pose on axis
        "interpolate",  # Interpolate missing pose points
        "torch",  # Convert body to torch
        "tensorflow",  # Convert body to tensorflow
        "slice_step",  # Step through the data
    }
    """
A set of method names which define actions that can be applied to the pose data.

    Parameters
    ----------
    augment2d : str
        Represents a method to augment 2D points.
    flip : str
        Represents a method to flip the pose on an axis.
    interpolate : str
        Represents a method to interpolate missing pose points.
    torch : str
        Represents a method to convert the body data to torch format.
    tensorflow : str
        Represents a method to convert the body data to TensorFlow format.
    slice_step : str
        Represents a method to step through the data.
    """

    def __getattr__(self, attr):
        """
        for dynamic method resolution on the PoseBody

        Parameters
        ----------
        attr : str
            Name of the attribute or method to get.

        Returns
        -------
        Callable
            callable method if found.

        Raises
        ------
        AttributeError
            If the attribute does not exist.
        """
        if attr not in Pose.pass_through_methods:
            raise AttributeError("Attribute '%s' doesn't exist on class Pose" % attr)

        def func(*args, **kwargs):
            prop = getattr(self.body, attr)
            body_res = prop(*args, **kwargs)

            if isinstance(body_res, PoseBody):
                header = self.header
                if hasattr(header, attr):
                    header_res = getattr(header, attr)(*args, **kwargs)
                    if isinstance(header_res, PoseHeader):
                        header = header_res

                return Pose(header, body_res)

            return body_res

        return func

    def __str__(self):
        return f"Pose\n{self.header}\n{self.body}"
