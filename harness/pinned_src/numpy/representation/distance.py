import numpy.ma as ma


class DistanceRepresentation:
    """
    A class to compute the Euclidean distance between two sets of points.
    """

    def distance(self, p1s: ma.MaskedArray, p2s: ma.MaskedArray) -> ma.MaskedArray:
        """
        Compute the Euclidean distance between two sets of points.

        Parameters
        ----------
        p1s : ma.MaskedArray
            First set of points.
        p2s : ma.MaskedArray
            Second set of points.

        Returns
        -------
        ma.MaskedArray
            Euclidean distances between the two sets of points. The returned array has one fewer dimension than the input arrays, as the distance calculation collapses the last dimension.

        Note
        ----
        this method assumes that input arrays `p1s` and `p2s` have same shape.
        """
        diff = p1s - p2s
        square = ma.power(diff, 2)
        sum_squares = square.sum(axis=-1)
        sqrt = ma.sqrt(sum_squares).filled(0)
        return sqrt

    def __call__(self, p1s: ma.MaskedArray, p2s: ma.MaskedArray) -> ma.MaskedArray:
        """
        For `distance` method to compute Euclidean distance between two points.

        Parameters
        ----------
        p1s : ma.MaskedArray, shape (Points, Batch, Len, Dims)
            First set of points.
        p2s : ma.MaskedArray, shape (Points, Batch, Len, Dims)
            Second set of points.

        Returns
        -------
        ma.MaskedArray, shape (Points, Batch, Len)
            Euclidean distances between the two sets of points.
        """
        return self.distance(p1s, p2s)
