import math
from typing import BinaryIO, List, Optional, Union

import numpy as np
import numpy.ma as ma

from ..pose_body import POINTS_DIMS, PoseBody
from ..pose_header import PoseHeader
from ..utils.reader import BufferReader, ConstStructs

# import numpy as np
# np.seterr(all='raise')


class NumPyPoseBody(PoseBody):
    """
    Represents pose information leveraging NumPy operations and structures.

     * Inherits from:  `PoseBody`
     * Implements pose info using NumPy operations and structures.
     * Provides method for operations:  matrix, multiplication, interpolation and data type conversions 

    The `NumPyPoseBody` is an implementation of  `PoseBody` base class. 
    This subclass uses NumPy masked arrays to handle pose data. 
    Makes it suitable for applications where you need NumPy-based operations. 
    The masked arrays allow for efficient handling of missing or invalid pose values

    The class also comes with methods to transform, modify, and operate on pose data, including matrix multiplication, interpolation, 
    and conversions to other data types like PyTorch tensors or TensorFlow tensors
    
    Parameters
    ----------
    fps : float
        Frames per second, to represent the temporal aspect of pose data.
    data : Union[ma.MaskedArray, np.ndarray]
        Pose data either as a masked array or a regular numpy array.
    confidence : np.ndarray
        confidence array of the pose keypoints.
    """

    """Specifies the method name for unpacking a numpy array (Value: 'unpack_numpy')."""
    tensor_reader = 'unpack_numpy'

    def __init__(self, fps: float, data: Union[ma.MaskedArray, np.ndarray], confidence: np.ndarray):
        """
        Initializes the NumPyPoseBody instance
        """
        if isinstance(data, np.ndarray):  # If array is not masked
            mask = confidence == 0  # 0 means no-mask, 1 means with-mask
            stacked_mask = np.stack([mask] * data.shape[-1], axis=-1)
            data = ma.masked_array(data, mask=stacked_mask)

        super().__init__(fps, data, confidence)

    @classmethod
    def read_v0_0(cls,
                  header: PoseHeader,
                  reader: BufferReader,
                  start_frame: Optional[int] = None,
                  end_frame: Optional[int] = None,
                  start_time: Optional[int] = None,
                  end_time: Optional[int] = None,
                  **unused_kwargs):
        """
        Reads pose data from a given buffer reader using a specified data format version (see: ``docs/specs``).

        Parameters
        ----------
        header : PoseHeader
            Pose header information
        reader : BufferReader
            binary buffer reader
        start_frame, end_frame : int, optional
            Frame window to return (frames have no fixed size in this version: all are decoded, the window is kept).
        start_time, end_time : int, optional
            The same window in milliseconds.

        Returns
        -------
        NumPyPoseBody
            Instance of NumPyPoseBody with read pose data.
        """
        if start_time is not None and start_frame is not None:
            raise ValueError("Cannot specify both start_time and start_frame")
        if end_time is not None and end_frame is not None:
            raise ValueError("Cannot specify both end_time and end_frame")

        fps, _frames = reader.unpack(ConstStructs.double_ushort)

        if start_time is not None:
            start_frame = math.floor(start_time / 1000 * fps)
        if end_time is not None:
            end_frame = math.ceil(end_time / 1000 * fps)
        if start_frame is not None and start_frame > 0 and start_frame >= _frames:
            raise ValueError(f"Start frame {start_frame} is greater than the number of frames {_frames}")
        window = slice(max(start_frame or 0, 0), None if end_frame is None else max(end_frame, 0))

        _dims = max([len(c.format) for c in header.components]) - 1
        _points = sum([len(c.points) for c in header.components])

        frames_d = []
        frames_c = []
        for _ in range(_frames):
            _people = reader.unpack(ConstStructs.ushort)
            people_d = []
            people_c = []
            for pid in range(_people):
                reader.advance(ConstStructs.short)  # Skip Person ID
                person_d = []
                person_c = []
                for component in header.components:
                    points = np.array(
                        reader.unpack_numpy(ConstStructs.float, (len(component.points), len(component.format))))
                    dimensions, confidence = np.split(points, [-1], axis=1)
                    boolean_confidence = np.where(confidence != 0, 0, 1)  # To create the mask (same rule as the constructor: 0 means missing)
                    mask = np.column_stack(tuple([boolean_confidence] * (len(component.format) - 1)))

                    person_d.append(ma.masked_array(dimensions, mask=mask))
                    person_c.append(np.squeeze(confidence, axis=-1))

                if pid == 0:
                    people_d.append(ma.concatenate(person_d))
                    people_c.append(np.concatenate(person_c))

            # In case no person, should all be zeros
            if len(people_d) == 0:
                people_d.append(np.zeros((_points, _dims)))
                people_c.append(np.zeros(_points))

            frames_d.append(ma.stack(people_d))
            frames_c.append(np.stack(people_c))

        frames_d, frames_c = frames_d[window], frames_c[window]

        if len(frames_d) == 0:  # a file (or window) without frames is an empty pose (an empty list cannot be stacked)
            return cls(fps, np.zeros((0, 1, _points, _dims)), np.zeros((0, 1, _points)))

        return cls(fps, ma.stack(frames_d), ma.stack(frames_c))

    def write(self, version: float, buffer: BinaryIO):
        """
        Writes pose data to a binary buffer using specified data format version.

        Parameters
        ----------
        version : float
            Version of the data format.
        buffer : BinaryIO
            The binary buffer to write to.
        """
        _frames, _people, _points, _dims = self.data.shape
        if _frames > 4_294_967_295: # about 4.5 years of video at 30fps
            raise ValueError("Too many frames to write. Maximum is 2^32 - 1.")
        buffer.write(ConstStructs.float.pack(self.fps))
        buffer.write(ConstStructs.uint.pack(_frames))
        buffer.write(ConstStructs.ushort.pack(_people))

        buffer.write(np.array(self.data.data, dtype=np.float32).tobytes())
        buffer.write(np.array(self.confidence, dtype=np.float32).tobytes())

    def copy(self) -> 'NumPyPoseBody':
        return type(self)(fps=self.fps,
                          data=self.data.copy(),
                          confidence=self.confidence.copy())

    @property
    def mask(self):
        """ Returns  mask associated with data. """
        return self.data.mask

    def torch(self):
        """
        converts current instance into a TorchPoseBody instance.

        Returns
        -------
        TorchPoseBody
            The pose body data represented in PyTorch tensors.
        """
        try:
            import torch
        except ImportError:
            raise ImportError("Please install torch. https://pytorch.org/")

        import torch

        from ..torch.pose_body import TorchPoseBody

        torch_confidence = torch.from_numpy(self.confidence)
        torch_data = torch.from_numpy(self.data.data)
        return TorchPoseBody(self.fps, torch_data, torch_confidence)

    def tensorflow(self):
        """
        converts current instance into a TensorflowPoseBody instance

        Returns
        -------
        TensorflowPoseBody
            pose body data represented in TensorFlow tensors
        """
        import tensorflow

        from ..tensorflow.pose_body import TensorflowPoseBody

        tf_confidence = tensorflow.constant(self.confidence)
        tf_data = tensorflow.constant(self.data.data)
        return TensorflowPoseBody(self.fps, tf_data, tf_confidence)

    def zero_filled(self):
        """
        fills missing values with zeros.

        Returns
        -------
        NumPyPoseBody
            changed pose body data.
        """
        copy = self.copy()
        copy.data = ma.array(copy.data.filled(0), mask=copy.data.mask)
        return copy

    def matmul(self, matrix: np.ndarray):
        """
        Performs matrix multiplication on pose data.

        Parameters
        ----------
        matrix : np.ndarray
            matrix to multiply the pose data with

        Returns
        -------
        NumPyPoseBody
            transformed pose body data
        """
        data = ma.dot(self.data, matrix)
        return NumPyPoseBody(self.fps, data, self.confidence)

    def flip(self, axis=0):
        """
        flips pose data across a specified axis

        Parameters
        ----------
        axis : int, optional
            axis along which the pose data should be flipped.

        Returns
        -------
        NumPyPoseBody
            flipped pose body data
        """
        vec = np.ones(self.data.shape[-1])
        vec[axis] = -1

        data = self.data * vec
        return NumPyPoseBody(self.fps, data, self.confidence)

    def points_perspective(self):
        """
        Transforms pose data to get a perspective based on points.

        Returns
        -------
        ma.MaskedArray
            Transformed pose data
        """
        return ma.transpose(self.data, axes=POINTS_DIMS)

    def get_points(self, indexes: List[int]):
        """
        Get points (keypoints) based on given indexes.

        Parameters
        ----------
        indexes : List[int]
             List of indices representing the keypoints to get.

        Returns
        -------
        NumPyPoseBody
            Pose body data containing only a specified points.
        """
        data = ma.transpose(self.data, axes=POINTS_DIMS)
        new_data = ma.transpose(data[indexes], axes=POINTS_DIMS)

        confidence_reshape = (2, 1, 0)
        confidence = np.transpose(self.confidence, axes=confidence_reshape)
        new_confidence = np.transpose(confidence[indexes], axes=confidence_reshape)

        return NumPyPoseBody(self.fps, new_data, new_confidence)

    def bbox(self, header: PoseHeader):
        """
        Computes the bounding boxes for each component based on the pose data.

        Parameters
        ----------
        header : PoseHeader
            Pose header information.

        Returns
        -------
        NumPyPoseBody
            Pose body data representing bounding boxes.
        """
        data = ma.transpose(self.data, axes=POINTS_DIMS)

        # Split data by components, `ma` doesn't support ".split"
        components = []
        idx = 0
        for component in header.components:
            components.append(data[list(range(idx, idx + len(component.points)))])
            idx += len(component.points)

        # A component without points has no extent: one fully missing point makes its box missing as well
        components = [c if len(c) > 0 else ma.masked_all((1,) + c.shape[1:], dtype=c.dtype) for c in components]
        boxes = [ma.stack([ma.min(c, axis=0), ma.max(c, axis=0)]) for c in components]
        boxes_cat = ma.concatenate(boxes)
        if type(boxes_cat.mask) == np.bool_:  # Sometimes, it doesn't concatenate the mask...
            boxes_mask = ma.concatenate([b.mask for b in boxes])
            boxes_cat = ma.array(boxes_cat, mask=boxes_mask)

        new_data = ma.transpose(boxes_cat, axes=POINTS_DIMS)

        confidence_mask = ma.getmaskarray(new_data)[:, :, :, 0]
        confidence = np.where(confidence_mask == True, 0, 1)

        return NumPyPoseBody(self.fps, new_data, confidence)

    def interpolate(self, new_fps: int = None, kind='cubic'):
        """
        Interpolates the pose data to match a new frame rate.

        Parameters
        ----------
        new_fps : int, optional
            The desired frame rate for interpolation.
        kind : str, optional
            The type of interpolation. Options include: "linear", "quadratic", and "cubic".

        Returns
        -------
        NumPyPoseBody
            Interpolated pose body data.
        """
        try:
            from scipy.interpolate import interp1d
        except ImportError:
            raise ImportError("Please install scipy with: pip install scipy")

        if new_fps is None:
            new_fps = self.fps

        _frames = self.data.shape[0]
        if _frames == 1:
            raise ValueError("Can't interpolate single frame")

        _new_frames = round(_frames * new_fps / self.fps)
        steps = np.linspace(0, 1, _frames)
        new_steps = np.linspace(0, 1, _new_frames)

        transposed = self.points_perspective()  # (points, people, frames, dims)
        masked_confidence = ma.array(self.confidence, mask=self.confidence == 0)
        confidence = ma.expand_dims(masked_confidence.transpose(), axis=3)  # (points, people, frames, 1)
        points = ma.concatenate([transposed, confidence], axis=3)

        new_people = []
        for people in points:
            new_frames = []
            for frames in people:
                mask = frames.transpose()[-1].mask # takes mask from confidence value

                partial_steps = ma.array(steps, mask=mask).compressed()

                if partial_steps.shape[0] == 0:  # No data for this point
                    new_frames.append(np.zeros((_new_frames, frames.shape[1])))
                else:
                    partial_frames = frames.compressed().reshape(partial_steps.shape[0], frames.shape[1])

                    if len(partial_steps) == 1:
                        f = lambda l: partial_frames
                    else:
                        this_kind = kind if len(partial_steps) > 3 \
                            else "quadratic" if len(partial_steps) > 2 and kind == "cubic" \
                            else "linear"  # Can't do something fancy for 2 points
                        f = interp1d(partial_steps, partial_frames, axis=0, kind=this_kind)

                    first_step = partial_steps[0]
                    last_step = partial_steps[-1]
                    if first_step == 0 and last_step == 1:
                        new_frames.append(f(new_steps))
                    else:
                        first_step_where = np.argwhere(new_steps >= first_step)
                        first_step_index = first_step_where[0][0] if len(first_step_where) > 0 else len(new_steps)

                        last_step_where = np.argwhere(new_steps > last_step)
                        last_step_index = last_step_where[0][0] if len(last_step_where) > 0 else len(new_steps)

                        if first_step_index == last_step_index:
                            new_frames.append(np.zeros((len(new_steps), frames.shape[1])))
                        else:
                            frame_data = f(new_steps[first_step_index:last_step_index])
                            new_frames.append(
                                np.concatenate([
                                    np.zeros((first_step_index, frames.shape[1])),
                                    np.array(frame_data),
                                    np.zeros((len(new_steps) - last_step_index, frames.shape[1]))
                                ]))
            new_people.append(np.stack(new_frames, axis=0))

        new_data = np.stack(new_people, axis=0).transpose([2, 1, 0, 3])
        dimensions, confidence = np.split(new_data, [-1], axis=3)
        confidence = np.squeeze(confidence, axis=3)

        return NumPyPoseBody(fps=new_fps, data=dimensions, confidence=confidence)

    def flatten(self):
        """
        Flattens data and confidence arrays.

        method reshapes data and confidence arrays to a two-dimensional array.
        The flattened array is filtered to remove rows where confidence is zero.

        Returns
        -------
        numpy.ndarray
            flattened and filtered version of the data array.

        """
        shape = self.data.shape
        data = self.data.data.reshape(-1, shape[-1])  # Not masked data
        confidence = self.confidence.flatten()
        indexes = list(np.ndindex(shape[:-1]))
        flat = np.c_[indexes, confidence, data]
        # Filter data from flat
        flat = flat[confidence != 0]
        # Scale the first axis by fps
        scalar = np.ones(len(shape) + shape[-1])
        scalar[0] = 1 / self.fps
        return flat * scalar
