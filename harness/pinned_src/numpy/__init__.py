from .pose_body import NumPyPoseBody
