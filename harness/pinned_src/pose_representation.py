from typing import List

from .pose_header import PoseHeader


class PoseRepresentation:
    """
    Represents a pose using various representation modules.

    Parameters
    ----------
    header : PoseHeader
        Header information about the pose.
    rep_modules1 : List, optional
        List of modules that use a point-based representation. Defaults to an empty list.
    rep_modules2 : List, optional
        List of modules that use a limb-based representation. Defaults to an empty list.
    rep_modules3 : List, optional
        List of modules that use a triangle-based representation. Defaults to an empty list.

    Attributes
    ----------
    input_size : int
        Combined point count across all components of the header.
    rep_modules1_size : int
        The size represented by the point-based modules.
    rep_modules2_size : int
        The size represented by the limb-based modules.
    rep_modules3_size : int
        The size represented by the triangle-based modules.
    output_size : int
        The overall size of the output representation.

    """

    def __init__(self, header: PoseHeader, rep_modules1: List = [], rep_modules2: List = [], rep_modules3: List = []):
        self.header = header

        self.input_size = sum([len(c.points) for c in header.components])
        dims = len(header.components[0].format)

        # Modules relying on points
        self.rep_modules1 = rep_modules1
        self.rep_modules1_size = self.input_size * dims

        # Modules relying on limbs
        self.rep_modules2 = rep_modules2
        self.limb_pt1s, self.limb_pt2s = self.get_limbs_points()
        self.rep_modules2_size = len(self.limb_pt1s)

        # Modules relying on triangles
        self.rep_modules3 = rep_modules3
        self.triangle_pt1s, self.triangle_pt2s, self.triangle_pt3s = self.get_triangles_points()
        self.rep_modules3_size = len(self.triangle_pt1s)

        self.output_size = self.calc_output_size()

    def calc_output_size(self):
        """
        Calculate total size of output representation, based on active modules
        
        Returns
        -------
        int
            Total size of the module representation.
        """
        return len(self.rep_modules1) * self.rep_modules1_size + \
               len(self.rep_modules2) * self.rep_modules2_size + \
               len(self.rep_modules3) * self.rep_modules3_size

    def get_limbs_points(self):
        """
        Get points that define limbs 

        Returns
        -------
        Tuple[List, List]
            Two lists containing points that define the start and end of each limb.
        """
        pt1s = []
        pt2s = []

        idx = 0
        for component in self.header.components:
            for (a, b) in component.limbs:
                pt1s.append(a + idx)
                pt2s.append(b + idx)
            idx += len(component.points)

        return pt1s, pt2s

    def get_triangles_points(self):
        """
        Get points that make up triangles.

        Returns
        -------
        Tuple[List, List, List]
            Three lists which have points that define each corner of the triangles.
        """
        assert self.limb_pt1s
        assert self.limb_pt2s

        # Limb continuing when limb ended
        chains = [(p1, p2, p4)
                  for p1, p2 in zip(self.limb_pt1s, self.limb_pt2s)
                  for p3, p4 in zip(self.limb_pt1s, self.limb_pt2s)
                  if p2 == p3]
        # # Limbs coming out from the same location
        # branches = [(p2, p1, p4) for p1, p2 in zip(self.limb_pt1s, self.limb_pt2s)
        #             for p3, p4 in zip(self.limb_pt1s, self.limb_pt2s) if p1 == p3 and p2 != p4]
        branches = []

        triangles = chains + branches
        return list(zip(*triangles))

    def group_embeds(self, embeds: List):
        """
        Groups given embeddings into a desired format. Must be implemented by subclasses.

        Parameters
        ----------
        embeds : List
            List of tensor embeddings, tensor size: (embed_size, Batch, Len).

        Raises
        ------
        NotImplementedError
            If the method is not implemented by subclasses.

        Returns
        -------
        Size (Batch, Len, embed_size)
        """
        raise NotImplementedError('Group embeds is not implemented')

    def get_points(self, tensor, points):
        """
        get points from a given tensor

        Parameters
        ----------
        tensor : torch.Tensor
            Tensor from which you need the points.
        points : List[int]
            Indices of points that need to be extracted.

        Returns
        -------
        torch.Tensor
            Gotten points from tensor.
        """
        return tensor[points]

    def permute(self, src, shape: tuple):
        """
        Permutes  given tensor according to shape. 

        Parameters
        ----------
        src : torch.Tensor
            Tensor to  permute.
        shape : tuple
            Desired shape of permuted tensor.

        Raises
        ------
        NotImplementedError
            If method is not implemented by subclasses.

        """
        raise NotImplementedError('Group embeds is not implemented')

    def __call__(self, src):
        """
        Computes modules representation of the pose using the specified modules.

        Parameters
        ----------
        src : torch.Tensor
            Input tensor of size (Batch, Len, Points, Dims).

        Returns
        -------
        torch.Tensor
            Pose representation tensor of size (Batch, Len, embed_size).
        """
        points = self.permute(src, (2, 0, 1, 3))  # (Points, Batch, Len, Dims)

        embeds = []  # (embed_size, Batch, Len)

        # Use modules requiring a single point
        if len(self.rep_modules1) > 0:
            embeds += [module(points) for module in self.rep_modules1]

        # Use modules requiring limbs
        if len(self.rep_modules2) > 0:
            pt1s = self.get_points(points, self.limb_pt1s)
            pt2s = self.get_points(points, self.limb_pt2s)
            embeds += [module(p1s=pt1s, p2s=pt2s) for module in self.rep_modules2]

        # Use modules requiring triangles
        if len(self.rep_modules3) > 0:
            pt1s = self.get_points(points, self.triangle_pt1s)
            pt2s = self.get_points(points, self.triangle_pt2s)
            pt3s = self.get_points(points, self.triangle_pt3s)
            embeds += [module(p1s=pt1s, p2s=pt2s, p3s=pt3s) for module in self.rep_modules3]

        return self.group_embeds(embeds)
