import copy
import hashlib
import math
import struct
import threading
from typing import BinaryIO, List, Tuple, Optional, Union

from .utils.reader import BufferReader, ConstStructs

VERSION = 0.2


class PoseNormalizationInfo:
    """ This class represents is used for normalization info for pose.
        
        Parameters
        ----------
        p1 : int
            First pose value
        p2 : int
            Second pose value.
        p3 : int, optional
            Third pose value. Defaults to None.
    """

    def __init__(self, p1: int, p2: int, p3: Optional[int] = None):
        """Initialize a PoseNormalizationInfo instance."""
        self.p1 = p1
        self.p2 = p2
        self.p3 = p3


class PoseHeaderComponent:
    """
    Class for pose header component

    Parameters
    ----------
    name : str
        Name of the pose header component
    points : List[str]
        List of point names.
    limbs : List[Tuple[int, int]]
        List of limb indices.
    colors : List[Tuple[int, int, int]]
        List of RGB colors for each limb.
    point_format : str
        Format for the points.

    Note
    ----
        Limbs and colors should have the same length. 
        The index in the limbs list corresponds to a color in the colors list.
    
    """

    def __init__(self, name: str, points: List[str], limbs: List[Tuple[int, int]], colors: List[Tuple[int, int, int]],
                 point_format: str):
        """
        Initializes PoseHeadComponent
        """
        self.name = name
        self.points = points
        self.limbs = limbs
        self.colors = colors
        self.format = point_format

        self.relative_limbs = self.get_relative_limbs()

    @staticmethod
    def read(version: float, reader: BufferReader) -> 'PoseHeaderComponent':
        """
        Reads pose header dimensions from reader (BufferReader).

        Parameters
        ----------
        version : float
            Version information.
        reader : BufferReader
            Reader object.

        Returns
        -------
        PoseHeaderDimensions
            instance of PoseHeaderDimensions.
        """
        name = reader.unpack_str()
        point_format = reader.unpack_str()
        _points, _limbs, _colors = reader.unpack(ConstStructs.triple_ushort)
        points = [reader.unpack_str() for _ in range(_points)]
        limbs = [reader.unpack(ConstStructs.double_ushort) for _ in range(_limbs)]
        colors = reader.unpack_numpy(ConstStructs.ushort, (_colors, 3))

        return PoseHeaderComponent(name, points, limbs, colors, point_format)

    def _write_str(self, buffer: BinaryIO, s: str):
        b = bytes(s, 'utf8')
        buffer.write(struct.pack("<H%ds" % len(b), len(b), b))

    def write(self, buffer: BinaryIO):
        """
        Writes pose header dimensions to a buffer (BinaryIO).

        Parameters
        ----------
        buffer : BinaryIO
            Buffer to write data info.

        Raises
        ------
        ValueError
            If dimension value is out of bounds.
        """
        self._write_str(buffer, self.name)  # Component Name
        self._write_str(buffer, self.format)  # Point Format

        # Lengths of points, limbs, and colors
        buffer.write(ConstStructs.triple_ushort.pack(len(self.points), len(self.limbs), len(self.colors)))

        for p in self.points:  # Names of Points
            self._write_str(buffer, p)

        for (p1, p2) in self.limbs:  # Indexes of Limbs
            buffer.write(ConstStructs.double_ushort.pack(p1, p2))

        for (r, g, b) in self.colors:  # RGB Colors
            buffer.write(ConstStructs.triple_ushort.pack(r, g, b))

    def get_relative_limbs(self):
        """
        Get relative limbs mapping.

        Constructs a mapping from the second point in each limb tuple to its index in the limbs list. 
        Then, it attempts to map each first point in the limbs tuple to its corresponding index.

        Returns
        -------
        list
            List of relative limb indices or None if the limb does not have a relative mapping.

        Note
        ----
        returned list is based on the `self.limbs` of the instance, its structure is expected to be a list of tuples, where each tuple represents a limb with two points.

        """
        limbs_map = {p2: i for i, (p1, p2) in enumerate(self.limbs)}
        return [limbs_map[p1] if p1 in limbs_map else None for p1, p2 in self.limbs]

    def __str__(self):
        text = f"PoseHeaderComponent: {self.name}\n"
        text += f"  Format: {self.format}\n"
        text += f"  Points: {self.points}\n"
        text += f"  Limbs: {len(self.limbs)}\n"
        text += f"  Colors: {len(self.colors)}\n"
        return text


class PoseHeaderDimensions:
    """
    Represents width, height, and depth dimensions for a pose header.

    Parameters
    ----------
    width : int
        Width of the pose.
    height : int
        Height of the pose.
    depth : int
        Depth of the pose. Defaults to 0.

    Raises
    ------
    ValueError
        If any dimension value is out of bounds (0 to 65535).

    Examples
    --------
    >>> dimensions = PoseHeaderDimensions(10, 20, 5)
    >>> print(dimensions.width)
    10
    """

    def __init__(self, width: int, height: int, depth: int = 0, *args):
        self.width = math.ceil(width)
        self.height = math.ceil(height)
        self.depth = math.ceil(depth)

    @staticmethod
    def read(version: float, reader: BufferReader) -> 'PoseHeaderDimensions':
        """
        Reads and returns a PoseHeaderDimensions object from a buffer reader.

        Parameters
        ----------
        version : float
            Version of the data being read.
        reader : BufferReader
            The reader 

        Returns
        -------
        PoseHeaderDimensions
            Instance of PoseHeaderDimensions with its read dimensions (width, height, depth).
        """
        width, height, depth = reader.unpack(ConstStructs.triple_ushort)
        return PoseHeaderDimensions(width, height, depth)

    def write(self, buffer: BinaryIO):
        """
        Writes dimensions to a buffer.

        Parameters
        ----------
        buffer : BinaryIO
            Buffer to which dimensions (width, height, depth) will be written.

        Raises
        ------
        ValueError
            If any dimension value is out of bounds (0 to 65535).
        """
        if not (0 <= self.width <= (0x7fff * 2 + 1)):
            raise ValueError(f"Width must be between 0 and 65535. Got {self.width}")
        if not (0 <= self.height <= (0x7fff * 2 + 1)):
            raise ValueError(f"Height must be between 0 and 65535. Got {self.height}")
        if not (0 <= self.depth <= (0x7fff * 2 + 1)):
            raise ValueError(f"Depth must be between 0 and 65535. Got {self.depth}")

        buffer.write(ConstStructs.triple_ushort.pack(self.width, self.height, self.depth))

    def __str__(self):
        return f"PoseHeaderDimensions(width={self.width}, height={self.height}, depth={self.depth})"


class PoseHeaderCache:
    start_offset: int = None
    end_offset: int = None
    hash: str = None
    header: 'PoseHeader' = None
    lock = threading.Lock()  # guards the four fields above: a lookup or an update is one critical section

    @staticmethod
    def calc_hash(buffer: bytes):
        return hashlib.md5(buffer[PoseHeaderCache.start_offset:PoseHeaderCache.end_offset]).hexdigest()

    @staticmethod
    def check_cache(buffer: bytes) -> 'PoseHeader':
        if PoseHeaderCache.hash is None:
            return None

        if PoseHeaderCache.hash == PoseHeaderCache.calc_hash(buffer):
            return PoseHeaderCache.header

    @staticmethod
    def clear_cache():
        with PoseHeaderCache.lock:
            PoseHeaderCache.start_offset = None
            PoseHeaderCache.end_offset = None
            PoseHeaderCache.hash = None
            PoseHeaderCache.header = None

    @staticmethod
    def set_cache(header: 'PoseHeader', buffer: bytes, start_offset: int, end_offset: int):
        with PoseHeaderCache.lock:
            PoseHeaderCache.start_offset = start_offset
            PoseHeaderCache.end_offset = end_offset
            PoseHeaderCache.header = copy.deepcopy(header)
            PoseHeaderCache.hash = PoseHeaderCache.calc_hash(buffer)


class PoseHeader:
    """
    Main header for a pose.

    Parameters
    ----------
    version : float
        Version of the pose header.
    dimensions : PoseHeaderDimensions
        Dimensions of the pose header.
    components : List[PoseHeaderComponent]
        List of pose header components.
    is_bbox : bool, optional
        If bounding box needed. Default is False.
    Note
    ----
    - Use the `read` method to generate an instance from a BufferReader.
    - `total_points` method returns the total number of points across all components.
    - `num_dims` method returns the number of dimensions (X, Y, Z, ...).
    - Convert the header to bounding boxes using the `bbox` method.

    Examples
    --------
    >>> header = PoseHeader(1.0, PoseHeaderDimensions(10, 20, 5), [PoseHeaderComponent(...)], is_bbox=True)
    >>> print(header.is_bbox)
    True
    """

    def __init__(self,
                 version: float,
                 dimensions: PoseHeaderDimensions,
                 components: List[PoseHeaderComponent],
                 is_bbox=False):
        self.version = version
        self.dimensions = dimensions
        self.components = components
        self.is_bbox = is_bbox


    @staticmethod
    def read(reader: BufferReader) -> 'PoseHeader':
        """
        Reads pose header data from a reader (BufferReader).


        Parameters
        ----------
        reader : BufferReader
            Reader object.

        Returns
        -------
        PoseHeader
            An instance of PoseHeader.
        """
        with PoseHeaderCache.lock:
            cached_header = PoseHeaderCache.check_cache(reader.buffer)
            if cached_header is not None:
                reader.read_offset = PoseHeaderCache.end_offset
                return copy.deepcopy(cached_header)

        start_offset = reader.read_offset
        version = reader.unpack(ConstStructs.float)
        dimensions = PoseHeaderDimensions.read(version, reader)

        _components = reader.unpack(ConstStructs.ushort)
        components = [PoseHeaderComponent.read(version, reader) for _ in range(_components)]
        end_offset = reader.read_offset

        pose_header = PoseHeader(version, dimensions, components)
        PoseHeaderCache.set_cache(pose_header, reader.buffer, start_offset, end_offset)

        return pose_header

    def write(self, buffer: BinaryIO):
        """
        Writes the pose header to a buffer (BinaryIO).

        Parameters
        ----------
        buffer : BinaryIO
            Buffer to write data into.
        """
        buffer.write(ConstStructs.float.pack(VERSION))  # File version
        self.dimensions.write(buffer)  # Width, Height, Depth
        buffer.write(ConstStructs.ushort.pack(len(self.components)))  # Number of components

        for component in self.components:
            component.write(buffer)

    def total_points(self):
        """
        Returns number of points

        Returns
        -------
        int
            Total number of points.
        """
        return sum(map(lambda c: len(c.points), self.components))

    def num_dims(self):
        """
        Returns number of dimensions

        Returns
        -------
        int
            Total number of dimensions (X, Y, Z, ...).
        """
        return max([len(c.format) for c in self.components]) - 1

    def _get_point_index(self, component: str, point: str):
        idx = 0
        for c in self.components:
            if c.name == component:
                idx += c.points.index(point)
                return idx
            else:
                idx += len(c.points)

        raise ValueError("Couldn't find component")

    def get_point_index(self, component: str, point: str) -> int:
        """
        Returns the index of a given point within the pose.

        Args:
            component (str): The name of the component containing the point.
            point (str): The name of the point whose index is to be retrieved.

        Raises:
            ValueError: If the specified component or point is not found.
        """
        return self._get_point_index(component, point)

    def normalization_info(self, p1: Tuple[str, str], p2: Tuple[str, str], p3: Tuple[str, str] = None):
        """
        Normalization info for given points.

        Parameters
        ----------
        p1 : Tuple[str, str]
            First point.
        p2 : Tuple[str, str]
            Second point.
        p3 : Tuple[str, str], optional
            Third point.

        Returns
        -------
        PoseNormalizationInfo
            Normalization information for the points.
        """
        return PoseNormalizationInfo(p1=self.get_point_index(*p1),
                                     p2=self.get_point_index(*p2),
                                     p3=None if p3 is None else self.get_point_index(*p3))

    def bbox(self):
        """
        Converts header to bounding boxes (bbox).

        Returns
        -------
        PoseHeader
            PoseHeader with bounding box information.
        """
        # Convert Header to boxes
        box_points = ['TOP_LEFT', 'BOTTOM_RIGHT']
        box_limbs = [(0, 1)]
        box_colors = [(255, 0, 0)]
        components = [PoseHeaderComponent(c.name, box_points, box_limbs, box_colors, c.format) for c in self.components]

        return PoseHeader(self.version, self.dimensions, components, True)

    def __str__(self):
        text = "PoseHeader\n"
        text += f"Version: {self.version}\n"
        text += str(self.dimensions) + "\n"
        text += f"Bounding Box: {self.is_bbox}\n"

        text += "Components:\n"
        for c in self.components:
            text += str(c) + "\n"
        return text
