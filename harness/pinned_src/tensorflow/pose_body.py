from typing import List, Union

import numpy as np
import tensorflow as tf

from ..pose_body import POINTS_DIMS, PoseBody
from .masked.tensor import MaskedTensor

TF_POSE_RECORD_DESCRIPTION = {
    'fps': tf.io.FixedLenFeature([], tf.int64, default_value=0),
    'pose_data': tf.io.FixedLenFeature([], tf.string),
    'pose_confidence': tf.io.FixedLenFeature([], tf.string),
}


class TensorflowPoseBody(PoseBody):
    """
    Representation of pose body data, optimized for TensorFlow operations.

    * Inherits from PoseBody 

    Parameters
    ----------
    fps : float
        The frames per second for the pose data.
    data : Union[:class:`~pose_format.tensorflow.masked.tensor.MaskedTensor`, tf.Tensor]
        The pose data.
    confidence : tf.Tensor
        The confidence scores for the pose data.
    """

    """str: The method used to read the tensor data. (Type: str)"""
    tensor_reader = 'unpack_tensorflow'

    def __init__(self, fps: float, data: Union[MaskedTensor, tf.Tensor], confidence: tf.Tensor):
        """
        Initializes the TensorflowPoseBody with fps, data and confidence.

        """
        if isinstance(data, tf.Tensor):  # If array is not masked
            mask = confidence != 0
            data = MaskedTensor(data, tf.stack([mask] * data.shape[-1], axis=3))

        super().__init__(fps, data, confidence)

    def zero_filled(self) -> 'TensorflowPoseBody':
        """Return an instance with zero-filled data."""
        copy = self.copy()
        copy.data = self.data.zero_filled()
        return copy

    def select_frames(self, frame_indexes: List[int]):
        """
        Selects and returns a subset of frames based on the frame indexes.

        Parameters
        ----------
        frame_indexes : List[int]
            List of frame indexes

        Returns
        -------
        TensorflowPoseBody
            Instance with the selected frames
        """
        data = self.data.gather(frame_indexes)
        confidence = tf.gather(self.confidence, frame_indexes)
        return self.__class__(fps=self.fps, data=data, confidence=confidence)

    def frame_dropout_given_percent(self, dropout_percent: float):
        """
        Remove some frames from the data at random from pose data.

        Parameters
        ----------
        dropout_percent : float
            The percentage of frames to drop.

        Returns
        -------
        TensorflowPoseBody, tf.Tensor
            A new instance with dropped frames and the selected frame indexes.
        """
        data_len = tf.shape(self.data.tensor)[0]

        # number of frames to drop (rounded down, like the NumPy / PyTorch bodies)
        number_drop = tf.squeeze(tf.cast(data_len, dtype=tf.float32) * dropout_percent)
        number_drop = tf.cast(number_drop, dtype=tf.int32)

        # always keep at least 1 frame
        number_sample = tf.maximum(1, data_len - number_drop)

        idxs = tf.range(data_len, dtype=tf.int32)

        select_indexes = tf.sort(tf.random.shuffle(idxs)[:number_sample])
        select_indexes = tf.cast(select_indexes, dtype=tf.int32)

        return self.select_frames(select_indexes), select_indexes

    def frame_dropout_uniform(self, dropout_min: float = 0.2, dropout_max: float = 1.0):
        """
        Drops randomly frames based on a given uniform distribution
        
        Parameters
        ----------
        dropout_min : float, optional
            minimum percentage for dropout, by default 0.2.
        dropout_max : float, optional
            maximum percentage for dropout, by default 1.0.

        Returns
        -------
        TensorflowPoseBody
            Instance with frames dropped based on a uniform distribution.
        """

        dropout_percent = tf.random.uniform([1], minval=dropout_min, maxval=dropout_max)[0]

        return self.frame_dropout_given_percent(dropout_percent)

    def frame_dropout_normal(self, dropout_mean: float = 0.5, dropout_std: float = 0.1):
        """
        Given mean and standard deviation, randomly drops out based on normal distribution. 

        Parameters
        ----------
        dropout_mean : float, optional
            The mean for the normal distribution, by default 0.5.
        dropout_std : float, optional
            The standard deviation for the normal distribution, by default 0.1.

        Returns
        -------
        TensorflowPoseBody
            instance with frames dropped based on normal distribution.
        """

        dropout_percent = tf.random.normal([1], mean=dropout_mean, stddev=dropout_std)[0]

        # clip negative values to zero
        dropout_percent = tf.maximum(dropout_percent, tf.constant([0.0]))

        return self.frame_dropout_given_percent(dropout_percent)

    def points_perspective(self) -> MaskedTensor:
        """
        Returns perspective transformation of pose points.

        Returns
        -------
        :class:`~pose_format.tensorflow.masked.tensor.MaskedTensor`
            Transformed pose data.
        """
        return self.data.transpose(perm=POINTS_DIMS)

    def copy(self) -> 'TensorflowPoseBody':
        # Ensure copies are fully detached from the TF computation graph by round-trip through numpy
        detached_data = tf.convert_to_tensor(self.data.tensor.numpy())
        detached_mask = tf.convert_to_tensor(self.data.mask.numpy())
        data_copy = MaskedTensor(detached_data, detached_mask)
        confidence_copy = tf.convert_to_tensor(self.confidence.numpy())
        return self.__class__(
            fps=self.fps,
            data=data_copy,
            confidence=confidence_copy)

    def get_points(self, indexes: List[int]):
        """
        Gets and returns points from pose data based on indexes 

        Parameters
        ----------
        indexes : List[int]
            List of point indexes to get.

        Returns
        -------
        TensorflowPoseBody
            Instance containing only the gotten points.
        """
        data = self.data.transpose(perm=POINTS_DIMS)
        new_data = data[indexes].transpose(perm=POINTS_DIMS)

        confidence_reshape = [2, 1, 0]
        confidence = tf.transpose(self.confidence, perm=confidence_reshape)
        new_confidence = tf.transpose(tf.gather(confidence, tf.constant(indexes, dtype=tf.int32)), perm=confidence_reshape)

        return TensorflowPoseBody(self.fps, new_data, new_confidence)

    def matmul(self, matrix: np.ndarray) -> __qualname__:
        """
        Multiplies pose data with a given matrix.

        Parameters
        ----------
        matrix : np.ndarray
            Matrix to multiply with pose data.

        Returns
        -------
        TensorflowPoseBody
            Instance with the pose data multiplied by the matrix.
        """
        matrix = tf.convert_to_tensor(matrix, dtype=self.data.dtype)
        data = self.data.matmul(matrix)
        return self.__class__(fps=self.fps, data=data, confidence=self.confidence)

    def as_tfrecord(self):
        """
        Converts into TensorFlow (tf) record format

        Returns
        -------
        dict
            dictionary representation of TensorFlow (tf) record for the pose body
        """
        data = tf.io.serialize_tensor(self.data.tensor).numpy()
        confidence = tf.io.serialize_tensor(self.confidence).numpy()

        return {
            'fps': tf.train.Feature(int64_list=tf.train.Int64List(value=[self.fps])),
            'pose_data': tf.train.Feature(bytes_list=tf.train.BytesList(value=[data])),
            'pose_confidence': tf.train.Feature(bytes_list=tf.train.BytesList(value=[confidence]))
        }

    @classmethod
    def from_tfrecord(cls, tfrecord_dict: dict):
        """
        From a TensorFlow record dictionary, it creates a instance of TensorflowPoseBody

        Parameters
        ----------
        tfrecord_dict : dict
            Dictionary representation of TensorFlow (tf) record data.

        Returns
        -------
        TensorflowPoseBody
            An instance constructed from given TensorFlow record data
        """
        fps = tf.cast(tfrecord_dict['fps'], dtype=tf.float32)
        data = tf.io.parse_tensor(tfrecord_dict['pose_data'], out_type=tf.float32)
        confidence = tf.io.parse_tensor(tfrecord_dict['pose_confidence'], out_type=tf.float32)
        return cls(fps=fps, data=data, confidence=confidence)
