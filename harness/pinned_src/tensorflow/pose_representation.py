from typing import List

import tensorflow as tf

from ..pose_representation import PoseRepresentation


class TensorflowPoseRepresentation(PoseRepresentation):
    """
    Class for pose representations using TensorFlow tensors.

        * Inherites from ``PoseRepresentation`` 
        
        This class extends PoseRepresentation and provides methods for manipulating pose representations
        using TensorFlow tensors.
        """

    def group_embeds(self, embeds: List[tf.Tensor]):
        """
        Group embeddings (list of tensors) along the first dimension.

        Parameters
        ----------
        embeds : List[tf.Tensor]
            List of tensors, each with shape (embed_size, Batch, Len).

        Returns
        -------
        tf.Tensor
            Tensor with shape (Batch, Len, embed_size).

        """
        group = tf.concat(embeds, axis=0)  # (embed_size, Batch, Len)
        return tf.transpose(group, perm=[1, 2, 0])

    def get_points(self, tensor: tf.Tensor, points: List):
        """
        Get specific points from a tensor.

        Parameters
        ----------
        tensor : tf.Tensor
            Tensor.
        points : List[int]
            Indices/points needed from Tensor

        Returns
        -------
        tf.Tensor
            Get values from the tensor using the given indices/points

        """
        return tf.gather(tensor, points)

    def permute(self, src, shape: tuple):
        """
        Permute dimensions of a tensor according to a given shape (tuple).

        Parameters
        ----------
        src : tf.Tensor
            tensor to permute
        shape : tuple
            Desired shape to permute to. 

        Returns
        -------
        tf.Tensor
            The permuted tensor.

        """
        return tf.transpose(src, perm=shape)
