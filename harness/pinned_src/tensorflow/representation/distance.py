import tensorflow as tf


class DistanceRepresentation:
    """A class to represent the Euclidean distance between two sets of points."""

    def distance(self, p1s: tf.Tensor, p2s: tf.Tensor) -> tf.Tensor:
        """
        Computes the Euclidean distance between two sets of points.

        Parameters
        ----------
        p1s : tf.Tensor
            First set of points with shape (Points, Batch, Len, Dims).
        p2s : tf.Tensor
            Second set of points with shape (Points, Batch, Len, Dims).

        Returns
        -------
        tf.Tensor
            A tensor representing the Euclidean distance between the two points 
            with shape (Points, Batch, Len).
        
        Note
        ----
        The function computes the difference between the two sets of points,
        squares the differences, sums the squared differences along the last axis,
        and then takes the square root to calculate the Euclidean distance.
        """
        diff = p1s - p2s  # (Points, Batch, Len, Dims)
        square = tf.square(diff)
        sum_squares = tf.reduce_sum(square, axis=-1)
        # TODO add .zero_filled()

        return tf.sqrt(sum_squares)

    def __call__(self, p1s: tf.Tensor, p2s: tf.Tensor) -> tf.Tensor:
        """
        Computes the Euclidean distance between two sets of points.

        Parameters
        ----------
        p1s : tf.Tensor
            First set of points with shape (Points, Batch, Len, Dims).
        p2s : tf.Tensor
            Second set of points with shape (Points, Batch, Len, Dims).

        Returns
        -------
        tf.Tensor
            A tensor representing the Euclidean distance between the two points 
            with shape (Points, Batch, Len).
        
        Note
        ----
        This method is essentially an alias for the `distance` method.
        """
        return self.distance(p1s, p2s)
