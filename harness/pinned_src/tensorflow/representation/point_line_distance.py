import tensorflow as tf

from .distance import DistanceRepresentation


class PointLineDistanceRepresentation:
    """
    A class to compute the distance between a point and a line segment.
    
    Parameters
    ---------- 
    distance : :class:`~pose_format.tensorflow.representation.distance.DistanceRepresentation`
        Instance of the `DistanceRepresentation` class to compute the Euclidean distance.

    """

    def __init__(self):
        """
        Initializes the PointLineDistanceRepresentation with an instance of DistanceRepresentation.
        """
        self.distance = DistanceRepresentation()

    def __call__(self, p1s: tf.Tensor, p2s: tf.Tensor, p3s: tf.Tensor) -> tf.Tensor:
        """
        Computes the distance between the point `p1s` and the line segment formed by `p2s` and `p3s`.

        Parameters
        ----------
        p1s : tf.Tensor
            The point for which we want to calculate the distance from the line segment 
            with shape (Points, Batch, Len, Dims).
        p2s : tf.Tensor
            One of the endpoints of the line segment with shape (Points, Batch, Len, Dims).
        p3s : tf.Tensor
            The other endpoint of the line segment with shape (Points, Batch, Len, Dims).

        Returns
        -------
        tf.Tensor
            A tensor representing the distance of point `p1s` from the line segment with shape (Points, Batch, Len).

        Note
        ----
        This method computes the distance using Heron's formula to first compute the area of the 
        triangle formed by the three points, and then determines the "height" of this triangle 
        with respect to the base formed by the line segment.
        
        * References: 
            Following Heron's Formula https://en.wikipedia.org/wiki/Heron%27s_formula
        """

        # Following Heron's Formula https://en.wikipedia.org/wiki/Heron%27s_formula
        a = self.distance.distance(p1s, p2s)
        b = self.distance.distance(p2s, p3s)
        c = self.distance.distance(p1s, p3s)
        s: tf.Tensor = (a + b + c) / 2
        squared = s * (s - a) * (s - b) * (s - c)
        area = tf.sqrt(squared)

        # Calc "height" of the triangle
        square_area: tf.Tensor = area * 2
        distance = tf.math.divide_no_nan(square_area, b)
        # TODO add .zero_filled()

        return distance
