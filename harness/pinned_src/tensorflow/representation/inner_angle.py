import tensorflow as tf


def get_vectors_norm(vectors):
    """
    Computes the normalized version of the input vectors.

    Parameters
    ----------
    vectors : tf.Tensor
        A tensor containing vectors.

    Returns
    -------
    tf.Tensor
        The normalized vectors.

    Notes
    -----
    This function transposes the input vectors, computes the magnitude (norm) 
    of the vectors, and then returns the normalized version by dividing 
    each vector by its magnitude.
    """
    transposed = tf.transpose(vectors)
    v_mag = tf.sqrt(tf.math.reduce_sum(transposed * transposed, axis=0))
    return tf.transpose(tf.math.divide_no_nan(transposed, v_mag))


class InnerAngleRepresentation:
    """A class to represent the inner angle formed at a point for a given triangle. """

    def __call__(self, p1s: tf.Tensor, p2s: tf.Tensor, p3s: tf.Tensor) -> tf.Tensor:
        """
        Computes the angle at point `p2s` for the triangle formed by `p1s`, `p2s`, and `p3s`.

        Parameters
        ----------
        p1s : tf.Tensor
            First set of points with shape (Points, Batch, Len, Dims).
        p2s : tf.Tensor
            Second set of points, where the angle is formed, 
            with shape (Points, Batch, Len, Dims).
        p3s : tf.Tensor
            Third set of points with shape (Points, Batch, Len, Dims).

        Returns
        -------
        tf.Tensor
            A tensor representing the angle (in radians) at point `p2s` 
            for the triangle with shape (Points, Batch, Len).
        
        Note
        ----
        This method determines the vectors pointing towards `p1s` and `p3s` 
        from the point `p2s`, normalizes these vectors, and then computes 
        the dot product between them. The angle between these vectors is 
        computed using the arccosine function on the dot product.

        Refrences: 
        * https://stackoverflow.com/questions/19729831/angle-between-3-points-in-3d-space
        """

        # Following https://stackoverflow.com/questions/19729831/angle-between-3-points-in-3d-space
        v1 = p1s - p2s  # (Points, Batch, Len, Dims)
        v2 = p3s - p2s  # (Points, Batch, Len, Dims)

        v1_norm = get_vectors_norm(v1)
        v2_norm = get_vectors_norm(v2)

        slopes = tf.reduce_sum(v1_norm * v2_norm, axis=3)
        angles = tf.acos(slopes)

        angles = tf.where(tf.math.is_nan(angles), 0., angles)  # Fix NaN, TODO think of faster way
        return angles
