import tensorflow as tf


class AngleRepresentation:
    """
    A class to represent the angle between the X/Y axis and line formed by two points.
    """

    def __call__(self, p1s: tf.Tensor, p2s: tf.Tensor) -> tf.Tensor:
        """
        Computes the angle of the X/Y axis between two points.

        Parameters
        ----------
        p1s : tf.Tensor
            First set of points with shape (Points, Batch, Len, Dims).
        p2s : tf.Tensor
            Second set of points with shape (Points, Batch, Len, Dims).

        Returns
        -------
        tf.Tensor
            A tensor representing the angle of the X/Y axis between two points
            with shape (Points, Batch, Len).
        
        Note
        ----
        The function computes the difference between the two point sets, 
        splits the difference into X and Y components, and then calculates 
        the slope and the angle using the arctan function. 
        If the x difference is zero, the function returns a result that 
        avoids NaN by using `tf.math.divide_no_nan`.
        """
        dims = p1s.shape[-1]

        d = p2s - p1s  # (Points, Batch, Len, Dims)
        xs, ys = tf.split(d, [1] * dims, axis=3)[:2]  # (Points, Batch, Len, 1)
        slopes = tf.math.divide_no_nan(ys, xs)  # Divide, no NaN
        # TODO add .zero_filled()
        slopes = tf.squeeze(slopes, axis=3)

        return tf.math.atan(slopes)
