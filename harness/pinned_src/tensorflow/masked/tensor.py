from typing import List

import tensorflow as tf


class MaskedTensor:

    def __init__(self, tensor: tf.Tensor, mask: tf.Tensor = None):

        self.tensor = tensor
        self.mask = mask if mask is not None else tf.ones(tensor.shape, dtype=tf.bool)  # .to(tensor.device)

    def __getattr__(self, item):
        """
        Get attributes from the tensor, unless it's a callable in which case an error is raised.

        Parameters
        ----------
        item : str
            Name of the attribute to fetch.

        Raises
        ------
        NotImplementedError
            If the requested attribute is callable.
        """
        val = self.tensor.__getattribute__(item)
        if hasattr(val, '__call__'):  # If is a function
            raise NotImplementedError("callable '%s' not defined" % item)
        else:
            return val

    def __len__(self):
        """
        Return the length of the tensor.

        Returns
        -------
        int
            Length of the tensor along the first dimension.

        """
        shape = self.tensor.shape
        return shape[0] if len(shape) > 0 else 1

    def __getitem__(self, key):
        """
        Get elements from tensor and corresponding mask based on a key.

        Parameters
        ----------
        key : list or int or slice or tf.Tensor
            Indexing key used to get the elements.

        Returns
        -------
        :class:`pose_format.tensorflow.masked.tensor.MaskedTensor`
            A new MaskedTensor containing elements selected by the indexing key.

        """
        if isinstance(key, list):
            key = tf.constant(key, dtype=tf.int32)  # an empty list would otherwise become a float tensor
            tensor = tf.gather(self.tensor, key)
            mask = tf.gather(self.mask, key)
        else:
            tensor = self.tensor[key]
            mask = self.mask[key]
        return MaskedTensor(tensor=tensor, mask=mask)

    def arithmetic(self, action: str, other):
        """
        For element-wise arithmetic operations with another tensor.

        Parameters
        ----------
        action : str
            Name of the arithmetic operation
        other : :class:`pose_format.tensorflow.masked.tensor.MaskedTensor` or tf.Tensor
            Tensor or MaskedTensor to perform the operation with.

        Returns
        -------
        :class:`pose_format.tensorflow.masked.tensor.MaskedTensor`
            A new MaskedTensor containing the result of the arithmetic operation.

        """
        if isinstance(other, MaskedTensor):
            tensor = getattr(self.tensor, action)(other.tensor)
            mask = self.mask & other.mask
        else:
            tensor = getattr(self.tensor, action)(other)
            mask = tf.broadcast_to(self.mask, tf.shape(tensor))
        return MaskedTensor(tensor=tensor, mask=mask)

    def __float__(self):
        return float(self.tensor)

    def __add__(self, other):
        return self.arithmetic("__add__", other)

    def __sub__(self, other):
        return self.arithmetic("__sub__", other)

    def __mul__(self, other):
        return self.arithmetic("__mul__", other)

    def __truediv__(self, other):
        return self.arithmetic("__truediv__", other)

    def __rtruediv__(self, other):
        return self.arithmetic("__rtruediv__", other)

    def __eq__(self, other):
        other_tensor = other.tensor if isinstance(other, MaskedTensor) else other
        return self.tensor == other_tensor

    def __pow__(self, power):
        return self.arithmetic("__pow__", power)

    def __round__(self, ndigits):
        multiplier = tf.constant(10**ndigits, dtype=tf.float32)
        return tf.round(self.tensor * multiplier) / multiplier

    def square(self):
        """
        Element-wise square of the tensor.

        Returns
        -------
        :class:`pose_format.tensorflow.masked.tensor.MaskedTensor`
            A new MaskedTensor containing the squared values of the original tensor.

        """
        tensor = tf.math.square(self.tensor)
        return MaskedTensor(tensor=tensor, mask=self.mask)

    def float(self):
        """
        Convert tensor's data type to float32 while preserving mask.

        Returns
        -------
        :class:`pose_format.tensorflow.masked.tensor.MaskedTensor`
            A new MaskedTensor with the tensor's data type converted to float32.

        """
        tensor = tf.cast(self.tensor, dtype=tf.float32)
        return MaskedTensor(tensor=tensor, mask=self.mask)

    def sqrt(self):
        """
        Element-wise square root of the tensor

        Returns
        -------
        :class:`pose_format.tensorflow.masked.tensor.MaskedTensor`
            A new MaskedTensor containing the square root values of the original tensor.

        """
        tensor = tf.math.sqrt(self.tensor)
        return MaskedTensor(tensor=tensor, mask=self.mask)

    def sum(self, axis):
        """
        Sum of tensor along specified axis while updating mask.

        Parameters
        ----------
        axis : int or None
            Axis along which to compute sum. If None, compute the sum over all elements.

        Returns
        -------
        :class:`pose_format.tensorflow.masked.tensor.MaskedTensor`
            A new MaskedTensor containing the sums of the tensor along the specified axis.

        """
        tensor = tf.math.reduce_sum(self.tensor, axis=axis)
        mask = tf.cast(tf.math.reduce_prod(tf.cast(self.mask, tf.int32), axis=axis), tf.bool)
        return MaskedTensor(tensor=tensor, mask=mask)

    def size(self, *args):
        """
        Get tensor's size along dimensions.

        Parameters
        ----------
        *args : int
            Dimensions for which to get size

        Returns
        -------
        int or tuple of int
            Size of tensor of specified dimensions.

        """
        return self.tensor.size(*args)

    def fix_nan(self):
        """
        Replace NaN values with zeros while keeping mask.

        Returns
        -------
        :class:`pose_format.tensorflow.masked.tensor.MaskedTensor`
            New MaskedTensor with NaN values replaced by zeros.

        """
        self.tensor = tf.where(tf.math.is_finite(self.tensor), self.tensor, tf.zeros_like(self.tensor))
        return self

    def zero_filled(self) -> tf.Tensor:
        """
        Fill invalid values (as indicated by the mask) with zeros.

        Returns
        -------
        tf.Tensor
            Tensor with the same shape as `self.tensor` but with zeros where the mask is False.
        """
        return tf.where(tf.cast(self.mask, tf.bool), self.tensor, tf.zeros_like(self.tensor))

    def div(self, other: "MaskedTensor", in_place=False, update_mask=True) -> "MaskedTensor":
        """
        Divide tensor by another tensor.

        Parameters
        ----------
        other : :class:`pose_format.tensorflow.masked.tensor.MaskedTensor`
            The divisor tensor.
        in_place : bool, optional
            Whether to do division in place. Default is False.
        update_mask : bool, optional
            Whether to update mask after division. Default is True.

        Returns
        -------
        :class:`pose_format.tensorflow.masked.tensor.MaskedTensor`
            Masked tensor after division.
        """
        tensor = tf.div(self.tensor, other.tensor, out=self.tensor if in_place else None)
        mask = self.mask & other.mask if update_mask else self.mask
        return MaskedTensor(tensor, mask)

    def matmul(self, matrix: tf.Tensor) -> "MaskedTensor":
        """
        Matrix multiplication a given matrix.

    Parameters
    ----------
    matrix : tf.Tensor
        Matrix to perform multiplication with.

    Returns
    -------
    :class:`pose_format.tensorflow.masked.tensor.MaskedTensor`
        MaskedTensor` with result of matrix multiplication.

    """
        tensor = tf.matmul(self.tensor, matrix)
        mask = tf.broadcast_to(tf.reduce_all(tf.cast(self.mask, tf.bool), axis=-1, keepdims=True), tf.shape(tensor))
        return MaskedTensor(tensor=tensor, mask=mask)

    def transpose(self, perm: List[int]) -> "MaskedTensor":
        """
        Transpose tensor according to given permutation.

        Parameters
        ----------
        perm : List[int]
            The new order of dimensions/permutation after transposition.

        Returns
        -------
        :class:`pose_format.tensorflow.masked.tensor.MaskedTensor`
            MaskedTensor with dimensions transposed according to the given permutation.

        """
        tensor = tf.transpose(self.tensor, perm=perm)
        mask = tf.transpose(self.mask, perm=perm)
        return MaskedTensor(tensor=tensor, mask=mask)

    def permute(self, dims: tuple) -> "MaskedTensor":
        """ Permute the dimensions of the tensor according to the provided tuple.

        Parameters
        ----------
        dims : tuple
            The new order of dimensions after permutation.

        Returns
        -------
        :class:`pose_format.tensorflow.masked.tensor.MaskedTensor`
            A new MaskedTensor with dimensions permuted according to the given tuple.

        """
        tensor = self.tensor.permute(dims=dims)
        mask = self.mask.permute(dims=dims)
        return MaskedTensor(tensor=tensor, mask=mask)

    def squeeze(self, axis) -> "MaskedTensor":
        """
        Remove dimensions with size 1 while updating the mask.

        Parameters
        ----------
        axis : int or None
            The axis along which to perform squeezing.

        Returns
        -------
        :class:`pose_format.tensorflow.masked.tensor.MaskedTensor`
            MaskedTensor` with dimensions removed and mask updated.

        """
        tensor = tf.squeeze(self.tensor, axis=axis)
        mask = tf.squeeze(self.mask, axis=axis)
        return MaskedTensor(tensor=tensor, mask=mask)

    def split(self, split_size_or_sections, axis=0):
        """
        Split tensor 

        Parameters
        ----------
        split_size_or_sections : int or tf.Tensor
            Number of splits or sizes of each split/sections.
        axis : int, optional
            Axis along which to do the splitting. Default is 0.

        Returns
        -------
        list of :class:`pose_format.tensorflow.masked.tensor.MaskedTensor`
            List of new MaskedTensor objects containing the splits.

        """
        tensors = tf.split(self.tensor, split_size_or_sections, axis)
        masks = tf.split(self.mask, split_size_or_sections, axis)
        return [MaskedTensor(tensor=tensor, mask=mask) for tensor, mask in zip(tensors, masks)]

    def reshape(self, shape: tuple) -> "MaskedTensor":
        """
        Reshape tensor into custom shape (tuple)

        Parameters
        ----------
        shape : tuple
            New shape of tensor.

        Returns
        -------
        :class:`pose_format.tensorflow.masked.tensor.MaskedTensor`
            new MaskedTensor with specified shape.

        """
        tensor = tf.reshape(self.tensor, shape=shape)
        mask = tf.reshape(self.mask, shape=shape)
        return MaskedTensor(tensor=tensor, mask=mask)

    def gather(self, indexes):
        """
        Gather elements from tensor using indexes.

        Parameters
        ----------
        indexes : tf.Tensor or list or int
            Indexes used to select elements from tensor

        Returns
        -------
        :class:`pose_format.tensorflow.masked.tensor.MaskedTensor`
            A new MaskedTensor containing elements gathered from the tensor using the indexes.

        """
        tensor = tf.gather(self.tensor, indexes)
        mask = tf.gather(self.mask, indexes)
        return MaskedTensor(tensor=tensor, mask=mask)

    def rename(self, *names) -> "MaskedTensor":
        """
        Rename using custom names.

        Parameters
        ----------
        *names : str
            New names of the dimensions.

        Returns
        -------
        :class:`pose_format.tensorflow.masked.tensor.MaskedTensor`
            A new MaskedTensor with dimensions renamed.
        """
        tensor = self.tensor.rename(*names)
        mask = self.mask.rename(*names)
        return MaskedTensor(tensor=tensor, mask=mask)

    def mean(self, axis=None, keepdims=False) -> "MaskedTensor":
        """
        Compute mean of tensor along a custom axis.

        Parameters
        ----------
        axis : None or int, optional
            Sxis along which to compute the mean. If None, compute the mean of the entire tensor. Default is None.
        keepdims : bool, optional
            If True, the reduced axis is kept with length 1 (so the result broadcasts against the input). Default is False.

        Returns
        -------
        :class:`pose_format.tensorflow.masked.tensor.MaskedTensor`
            The mean of the masked tensor.
        """
        mt_sum = tf.math.reduce_sum(self.zero_filled(), axis=axis, keepdims=keepdims)
        mt_count = tf.math.reduce_sum(tf.cast(self.mask, mt_sum.dtype), axis=axis, keepdims=keepdims)
        tensor = tf.math.divide(mt_sum, mt_count)
        mask = tf.cast(mt_count, tf.bool)
        mt = MaskedTensor(tensor=tensor, mask=mask)
        return mt.fix_nan()

    def variance(self, axis=None) -> "MaskedTensor":
        """
        Compute variance of tensor along a specified axis

        Parameters
        ----------
        axis : None or int, optional
            Axis along which to compute the variance. If None, compute the variance of the entire tensor. Default is None.

        Returns
        -------
        :class:`pose_format.tensorflow.masked.tensor.MaskedTensor`
            The variance of the masked tensor.

        """
        means = self.mean(axis=axis, keepdims=True)
        diff = self - means
        squared_deviations = diff.square()
        return squared_deviations.mean(axis=axis)

    def std(self, axis=None) -> "MaskedTensor":
        """
        Compute the standard deviation of the tensor along the specified axis.

        Parameters
        ----------
        axis : None or int, optional
            The axis along which to compute the standard deviation. If None, compute the standard deviation of the entire tensor. Default is None.

        Returns
        -------
        :class:`pose_format.tensorflow.masked.tensor.MaskedTensor`
            The standard deviation of the tensor.

        """
        variance = self.variance(axis=axis)
        return variance.sqrt()
