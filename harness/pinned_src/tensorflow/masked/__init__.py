from pose_format.tensorflow.masked.tensor import MaskedTensor
from pose_format.tensorflow.masked.tensorflow import MaskedTensorflow
