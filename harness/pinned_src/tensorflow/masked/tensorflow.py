from typing import List, Union

import tensorflow

from pose_format.tensorflow.masked.tensor import MaskedTensor


class TensorflowFallback(type):
    """A metaclass for managing the fallback operations on MaskedTensors with Tensorflow functions."""

    doesnt_change_mask = {"sqrt", "square", "cos", "sin", "tan", "acos", "asin", "atan"}

    def __getattr__(cls, attr):
        """
        to return Tensorflow functions that can work on MaskedTensors.
        
        Parameters
        ----------
        attr : str
            Tensorflow function name
            
        Returns
        -------
        function
            function that can handle both MaskedTensor and regular/unmasked Tensorflow Tensor objects.
        """

        def func(*args, **kwargs):
            if len(args) > 0 and isinstance(args[0], MaskedTensor):
                args = list(args)
                mask = args[0].mask
                args[0] = args[0].tensor

                res = getattr(tensorflow, attr)(*args, **kwargs)
                if attr in TensorflowFallback.doesnt_change_mask:
                    return MaskedTensor(res, mask)
                else:
                    return res

            else:  # If this action is done on an unmasked tensor
                return getattr(tensorflow, attr)(*args, **kwargs)

        return func


class MaskedTensorflow(metaclass=TensorflowFallback):
    """
    Class that performs Tensorflow operations on MaskedTensors. 
    It uses the TensorflowFallback metaclass to handle functions not explicitly defined in this class.
    """

    @staticmethod
    def concat(tensors: List[Union[MaskedTensor, tensorflow.Tensor]], axis: int) -> MaskedTensor:
        """
        Concatenates a list of tensors along a specified axis.
        
        Parameters
        ----------
        tensors : list
            List of MaskedTensor or tensorflow.Tensor objects.
        axis : int
            The axis along which to concatenate the tensors.
            
        Returns
        -------
        :class:`~pose_format.tensorflow.masked.tensor.MaskedTensor`
            concatenated Maskedtensor
        """
        tensors: List[MaskedTensor] = [t if isinstance(t, MaskedTensor) else MaskedTensor(tensor=t) for t in tensors]
        tensor = tensorflow.concat([t.tensor for t in tensors], axis=axis)
        mask = tensorflow.concat([t.mask for t in tensors], axis=axis)
        return MaskedTensor(tensor=tensor, mask=mask)

    @staticmethod
    def stack(tensors: List[MaskedTensor], axis: int) -> MaskedTensor:
        """
        Stacks a list of tensors along a specified axis.
        
        Parameters
        ----------
        tensors : list
            List of MaskedTensor objects.
        axis : int
            The axis along which to stack the tensors.
            
        Returns
        -------
        :class:`~pose_format.tensorflow.masked.tensor.MaskedTensor`
            masekd stacked tensor.
        """
        tensor = tensorflow.stack([t.tensor for t in tensors], axis=axis)
        mask = tensorflow.stack([t.mask for t in tensors], axis=axis)
        return MaskedTensor(tensor=tensor, mask=mask)

    @staticmethod
    def zeros(size, dtype=tensorflow.float32) -> MaskedTensor:
        """
        Returns a MaskedTensor of zeros with the specified size and dtype.
        
        Parameters
        ----------
        size : tuple
            The shape of the output tensor.
        dtype : tensorflow datatype, optional
            The datatype of the output tensor, default is tensorflow.float32.
            
        Returns
        -------
        :class:`~pose_format.tensorflow.masked.tensor.MaskedTensor`
            masked tensor of zeros.
        """
        tensor = tensorflow.zeros(size, dtype=dtype)
        mask = tensorflow.zeros(size, dtype=tensorflow.bool)
        return MaskedTensor(tensor=tensor, mask=mask)
