import math
from random import sample
from typing import BinaryIO, List, Tuple, Optional

import numpy as np


from pose_format.pose_header import PoseHeader
from pose_format.utils.reader import BufferReader, ConstStructs

POINTS_DIMS = (2, 1, 0, 3)


class PoseBody:
    """
    Class for body data of a pose.

    Parameters
    ----------
    fps : float
        Frames per second.
    data: 
        Data in the format (Frames, People, Points, Dims) e.g., (93, 1, 137, 2).
    confidence: 
        Confidence data in the format (Frames, People, Points) e.g., (93, 1, 137).


    """
    tensor_reader = 'ABSTRACT-DO-NOT-USE'

    def __init__(self, fps: float, data, confidence):
        """Initialize a PoseBody instance."""
        self.fps = fps
        self.data = data  # Shape (Frames, People, Points, Dims) - eg (93, 1, 137, 2)
        self.confidence = confidence  # Shape (Frames, People, Points) - eg (93, 1, 137)

    @classmethod
    def read(cls, header: PoseHeader, reader: BufferReader, **kwargs) -> "PoseBody":
        """
        Reads pose data a buffer (BufferReader) based on the header's version.

        Parameters
        ----------
        header : PoseHeader
            Header containing the version of its pose data.
        reader : BufferReader
            Buffer from which to read the pose data.
        **kwargs : dict
            Additional parameters for reading specific versions.
        
        Returns
        -------
        PoseBody
            PoseBody object initialized with the read data.
        
        Raises
        ------
        NotImplementedError
            If header's version is not supported / unknown.
        """

        if header.version == 0:
            return cls.read_v0_0(header, reader, **kwargs)
        if round(header.version, 3) == 0.1:
            return cls.read_v0_1(header, reader, **kwargs)
        if round(header.version, 3) == 0.2:
            return cls.read_v0_2(header, reader, **kwargs)

        raise NotImplementedError("Unknown version - %f" % header.version)

    @classmethod
    def read_v0_0(cls, header: PoseHeader, reader: BufferReader, **unused_kwargs):
        """
        reads version 0.0 pose data.

        Parameters
        ----------
        header : PoseHeader
            Header containing the version of the pose data.
        reader : BufferReader
            Buffer from which to read the pose data.
        unused_kwargs : dict
            Unused additional parameters for this version.

        Raises
        ------
        NotImplementedError
            method for this version is not implemented.
        """
        raise NotImplementedError("'read_v0_0' not implemented on '%s'" % cls.__class__)

    @classmethod
    def read_v0_1_frames(cls,
                         frames: int,
                         shape: List[int],
                         reader: BufferReader,
                         start_frame: Optional[int] = None,
                         end_frame: Optional[int] = None):
        """
        Reads frame data for version 0.1 from a buffer.

        Parameters
        ----------
        frames : int
            Number of frames in the pose data.
        shape : List[int]
            Shape of the pose data.
        reader : BufferReader
            Buffer from which to read the pose data.
        start_frame : int, optional
            Index of the first frame to read. Default is None.
        end_frame : int, optional
            Index of the last frame to read. Default is None.

        Returns
        -------
        ndarray
            Array containing the pose data for the specified frames.
        
        Raises
        ------
        ValueError
            If start_frame is greater than number of frames.
        """
        tensor_reader = reader.__getattribute__(cls.tensor_reader)
        s = ConstStructs.float

        _frames = frames
        if start_frame is not None and start_frame > 0:
            if start_frame >= frames:
                raise ValueError(f"Start frame {start_frame} is greater than the number of frames {frames}")
            # Advance to the start frame
            reader.skip(s, int(np.prod((start_frame, *shape))))
            _frames -= start_frame

        remove_frames = None
        if end_frame is not None:
            end_frame = min(end_frame, frames)  # Do not allow overflow
            remove_frames = frames - end_frame
            _frames -= remove_frames

        tensor = tensor_reader(ConstStructs.float, shape=(_frames, *shape))

        if remove_frames is not None:
            reader.skip(s, int(np.prod((remove_frames, *shape))))

        return tensor

    @classmethod
    def read_v0_1(cls,
                  header: PoseHeader,
                  reader: BufferReader,
                  start_frame: Optional[int] = None,
                  end_frame: Optional[int] = None,
                  start_time: Optional[int] = None,
                  end_time: Optional[int] = None,
                  **unused_kwargs) -> "PoseBody":
        """
        Reads pose data for version 0.1 from a buffer.

        Parameters
        ----------
        header : PoseHeader
            Header containing the version of the pose data.
        reader : BufferReader
            Buffer from which to read the pose data.
        start_frame : int, optional
            Index of the first frame to read. Default is None.
        end_frame : int, optional
            Index of the last frame to read. Default is None.
        start_time : int, optional
            Start time of the pose data (in milliseconds). Default is None.
        end_time : int, optional
            End time of the pose data (in milliseconds). Default is None.
        **unused_kwargs : dict
            Unused additional parameters for this version.

        Returns
        -------
        PoseBody
            PoseBody object initialized with the read data for version 0.1.
        """
        if start_time is not None and start_frame is not None:
            raise ValueError("Cannot specify both start_time and start_frame")
        if end_time is not None and end_frame is not None:
            raise ValueError("Cannot specify both end_time and end_frame")

        fps, _frames = reader.unpack(ConstStructs.double_ushort)

        _people = reader.unpack(ConstStructs.ushort)
        _points = sum(len(c.points) for c in header.components)
        _dims = header.num_dims()

        # _frames is defined as short, which sometimes is not enough! TODO change to int
        _frames = int(reader.bytes_remaining() / (_people * _points * (_dims + 1) * 4))

        if start_time is not None:
            start_frame = math.floor(start_time / 1000 * fps)
        if end_time is not None:
            end_frame = math.ceil(end_time / 1000 * fps)

        data = cls.read_v0_1_frames(_frames, (_people, _points, _dims), reader, start_frame, end_frame)
        confidence = cls.read_v0_1_frames(_frames, (_people, _points), reader, start_frame, end_frame)

        return cls(fps, data, confidence)

    @classmethod
    def read_v0_2(cls,
                  header: PoseHeader,
                  reader: BufferReader,
                  start_frame: Optional[int] = None,
                  end_frame: Optional[int] = None,
                  start_time: Optional[int] = None,
                  end_time: Optional[int] = None,
                  **unused_kwargs) -> "PoseBody":
        """
        Reads pose data for version 0.2 from a buffer.

        Parameters
        ----------
        header : PoseHeader
            Header containing the version of the pose data.
        reader : BufferReader
            Buffer from which to read the pose data.
        start_frame : int, optional
            Index of the first frame to read. Default is None.
        end_frame : int, optional
            Index of the last frame to read. Default is None.
        start_time : int, optional
            Start time of the pose data (in milliseconds). Default is None.
        end_time : int, optional
            End time of the pose data (in milliseconds). Default is None.
        **unused_kwargs : dict
            Unused additional parameters for this version.

        Returns
        -------
        PoseBody
            PoseBody object initialized with the read data for version 0.2.
        """

        if start_time is not None and start_frame is not None:
            raise ValueError("Cannot specify both start_time and start_frame")
        if end_time is not None and end_frame is not None:
            raise ValueError("Cannot specify both end_time and end_frame")

        fps = reader.unpack(ConstStructs.float)  # Changed from v0.1, uint -> float
        _frames = reader.unpack(ConstStructs.uint)  # Changed from v0.1, ushort -> uint

        _people = reader.unpack(ConstStructs.ushort)
        _points = sum([len(c.points) for c in header.components])
        _dims = header.num_dims()

        if start_time is not None:
            start_frame = math.floor(start_time / 1000 * fps)
        if end_time is not None:
            end_frame = math.ceil(end_time / 1000 * fps)

        data = cls.read_v0_1_frames(_frames, (_people, _points, _dims), reader, start_frame, end_frame)
        confidence = cls.read_v0_1_frames(_frames, (_people, _points), reader, start_frame, end_frame)

        return cls(fps, data, confidence)

    def write(self, version: float, buffer: BinaryIO):
        """
        Writes  data to a file based on version of spec: in docs/spec.

        Parameters
        ----------
        version : float
            Version of the pose data to write.
        buffer : BinaryIO
            Buffer to write the pose data to.
        """
        raise NotImplementedError("'write' not implemented on '%s'" % self.__class__)
    
    def copy(self)->"PoseBody":
        return self.__class__(fps=self.fps,
                          data=self.data,
                          confidence=self.confidence)

    def __getitem__(self, index):
        """
        Gets a version of the PoseBody data and confidence based on the provided index.

        Parameters
        ----------
        index : int or slice
            Index or slice to get data.

        Returns
        -------
        PoseBody
            PoseBody object with the sliced data and confidence.
        """
        # Get the sliced data and confidence
        sliced_data = self.data[index]
        sliced_confidence = self.confidence[index]

        # Create a new PoseBody object with the sliced data and confidence
        return type(self)(self.fps, sliced_data, sliced_confidence)

    def numpy(self):
        """
        Convert the current PoseBody representation to NumpyPoseBody.

        Returns
        -------
        NumpyPoseBody
            The converted PoseBody object.
        
        Raises
        ------
        NotImplementedError
            If numpy is not implemented.
        """
        raise NotImplementedError("'numpy' not implemented on '%s'" % self.__class__)

    def torch(self):
        """
        Converts current PoseBody to TorchPoseBody.

        Returns
        -------
        TorchPoseBody
            The converted PoseBody object.

        Raises
        ------
        NotImplementedError
            If torch is not implemented.
        """
        raise NotImplementedError("'torch' not implemented on '%s'" % self.__class__)

    def tensorflow(self):
        """
        Converts current PoseBody representation to TensorflowPoseBody.

        Returns
        -------
        TensorflowPoseBody
            Converted PoseBody object.

        Raises
        ------
        NotImplementedError
            If tensorflow is not implemented.
        """
        raise NotImplementedError("'tensorflow' not implemented on '%s'" % self.__class__)

    def flatten(self):
        """
        Converts data from the (Frames, People, Points, Dims) masked representation to an array of points.
        
        Every item in the result array contains the following dimensions:
        0. Time in milliseconds
        1. Person ID
        2. Point ID
        3. X dimension
        4. Y dimension
        5. Z dimension (if exists)
        6. Pose estimation confidence

        Returns
        -------
        np.ndarray
            Array of points with detailed dimensions.

        Raises
        ------
        NotImplementedError
            If the method is not implemented for the specific class.
        """
        raise NotImplementedError("'flatten' not implemented on '%s'" % self.__class__)

    def slice_step(self, by: int) -> "PoseBody":
        """
        Slices data by skipping rows. This affects the fps (frames per seconds).

        Parameters
        ----------
        by : int
            Take one row every "by" rows.

        Returns
        -------
        PoseBody
            PoseBody instance with sliced data.
        """
        new_data = self.data[::by]
        new_confidence = self.confidence[::by]
        new_fps = self.fps / by

        return self.__class__(fps=new_fps, data=new_data, confidence=new_confidence)

    def augment2d(self, rotation_std=0.2, shear_std=0.2, scale_std=0.2):
        """
        Augment 2D data with given standard deviations.

        Parameters
        ----------
        rotation_std : float, optional
            Rotation in radians. Default is 0.2.
        shear_std : float, optional
            Shear X in percent. Default is 0.2.
        scale_std : float, optional
            Scale X in percent. Default is 0.2.

        Returns
        -------
        PoseBody
            Augmented PoseBody instance.
        
        Note
        ----
        - The method modifies the PoseBody based on shear, rotation, and scaling.
        - **shear_std** based on https://en.wikipedia.org/wiki/Shear_matrix
        - **rotation_std** based on https://en.wikipedia.org/wiki/Rotation_matrix 
        - **scale_std** based on https://en.wikipedia.org/wiki/Scaling_(geometry)
        """
        matrix = np.eye(2)

        # Based on https://en.wikipedia.org/wiki/Shear_matrix
        if shear_std > 0:
            shear_matrix = np.eye(2)
            shear_matrix[0][1] = np.random.normal(loc=0, scale=shear_std, size=1)[0]
            matrix = np.dot(matrix, shear_matrix)

        # Based on https://en.wikipedia.org/wiki/Rotation_matrix
        if rotation_std > 0:
            rotation_angle = np.random.normal(loc=0, scale=rotation_std, size=1)[0]
            rotation_cos = np.cos(rotation_angle)
            rotation_sin = np.sin(rotation_angle)
            rotation_matrix = np.array([[rotation_cos, -rotation_sin], [rotation_sin, rotation_cos]])
            matrix = np.dot(matrix, rotation_matrix)

        # Based on https://en.wikipedia.org/wiki/Scaling_(geometry)
        if scale_std > 0:
            scale_matrix = np.eye(2)
            scale_matrix[1][1] += np.random.normal(loc=0, scale=scale_std, size=1)[0]
            matrix = np.dot(matrix, scale_matrix)

        # Cast to matrix the correct size
        dim_matrix = np.eye(self.data.shape[-1])
        dim_matrix[0:2, 0:2] = matrix

        return self.matmul(dim_matrix.astype(dtype=np.float32))

    def zero_filled(self) -> __qualname__:
        """
        Creates a new PoseBody instance with data replaced by zeros.

        Returns
        -------
        PoseBody
            PoseBody instance with zero-filled data.

        Raises
        ------
        NotImplementedError
            If the zero_filled is not implemented on class .
        """
        raise NotImplementedError("'zero_filled' not implemented on '%s'" % self.__class__)

    def matmul(self, matrix: np.ndarray) -> __qualname__:
        """
        Multiplies PoseBody data with a numpy.ndarray matrix.
        
        Parameters
        ----------
        matrix : np.ndarray
            The matrix to multiply the PoseBody data with.
            
        Returns
        -------
        PoseBody
            PoseBody instance with data multiplied by a numpy array.
        
        
        Raises
        ------
        NotImplementedError
            If the matmul is not implemented in class.
        """
        raise NotImplementedError("'matmul' not implemented on '%s'" % self.__class__)

    def get_points(self, indexes: List[int]) -> __qualname__:
        """
        Get points from PoseBody.
        
        Parameters
        ----------
        indexes : List[int]
            List of point indices to get from PoseBody.
            
        Returns
        -------
        PoseBody
            PoseBody instance containing only chosen points.
             
        Raises
        ------
        NotImplementedError
            If the `get_points` is not implemented in class.
        """
        raise NotImplementedError("'get_points' not implemented on '%s'" % self.__class__)

    def bbox(self, header: PoseHeader) -> __qualname__:
        """
        For computing bounding box of PoseBody.
        
        Parameters
        ----------
        header : PoseHeader
            Header containing the version of the pose data.
            
        Returns
        -------
        PoseBody
            PoseBody instance with bounding box.
        
        Raises
        ------
        NotImplementedError
            If the `bbox` is not implemented in class.
        """

        raise NotImplementedError("'bbox' not implemented on '%s'" % self.__class__)

    def points_perspective(self):
        """
        Give points in PoseBody as a perspective view.
        
        Returns
        -------
        PoseBody
            PoseBody instance with points adjusted for perspective.
        
        Raises
        ------
        NotImplementedError
            If the method is not implemented for the specific class.
        """
        raise NotImplementedError("'points_perspective' not implemented on '%s'" % self.__class__)

    def select_frames(self, frame_indexes: List[int]) -> "PoseBody":
        """
        Selects specific frames from PoseBody object.

        Parameters
        ----------
        frame_indexes : List[int]
            List of frame indexes to select.

        Returns
        -------
        PoseBody
            PoseBody object containing only the selected frames.

        Raises
        ------
        IndexError
            If any of the specified frame indices are out of the valid range for the current PoseBody data.
        """
        data = self.data[frame_indexes]
        confidence = self.confidence[frame_indexes]
        return self.__class__(fps=self.fps, data=data, confidence=confidence)

    def frame_dropout_given_percent(self, dropout_percent: float) -> Tuple["PoseBody", List[int]]:
        """
        Drop of frames based on  given dropout percentage.

        Parameters
        ----------
        dropout_percent : float
            Percentage of frames to drop. Between 0 and 1 (e.g., 0.2 means drop 20% of the frames).

        Returns
        -------
        Tuple[PoseBody, List[int]]
            - New PoseBody object with the gotten frames.
            - List of frame indexes.
        
        Note
        ----
        Actual number of dropped frames might be slightly different due to rounding!
        """

        data_len = len(self.data)
        dropout_number = min(int(data_len * dropout_percent), int(data_len * 0.99))
        dropout_indexes = set(sample(range(0, data_len), dropout_number))
        select_indexes = [i for i in range(0, data_len) if i not in dropout_indexes]

        return self.select_frames(select_indexes), select_indexes

    def frame_dropout_uniform(self, dropout_min: float = 0.2, dropout_max: float = 1.0) -> Tuple["PoseBody", List[int]]:
        """
        Randomly drops frames depending on a uniform distribution - given minimum and maximum percentages.

        Parameters
        ----------
        dropout_min : float, optional
            Minimum percentage of frames to drop. Default is 0.2.
        dropout_max : float, optional
            Maximum percentage of frames to drop. Default is 1.0.

        Returns
        -------
        Tuple[PoseBody, List[int]]
            - New PoseBody object with dropped frames.
            - List of frame indexes that were retained.
        """
        dropout_percent = np.random.uniform(low=dropout_min, high=dropout_max, size=1)[0]

        return self.frame_dropout_given_percent(dropout_percent)

    def frame_dropout_normal(self, dropout_mean: float = 0.5, dropout_std: float = 0.1) -> Tuple["PoseBody", List[int]]:
        """
        drop frames depending on normal distribution with given mean and standard deviation.

        Parameters
        ----------
        dropout_mean : float, optional
            Mean percentage of frames to drop. Default is 0.5.
        dropout_std : float, optional
            Standard deviation of percentage of frames to drop. Default is 0.1.

        Returns
        -------
        Tuple[PoseBody, List[int]]
            - New PoseBody object with dropped frames.
            - List of retrieved frame indexes.
        """
        dropout_percent = np.abs(np.random.normal(loc=dropout_mean, scale=dropout_std, size=1))[0]

        return self.frame_dropout_given_percent(dropout_percent)

    def __str__(self):
        text = f"{self.__class__.__name__}\n"
        text += f"FPS: {self.fps}\n"
        text += f"Data: {type(self.data)} {self.data.shape}, {self.data.dtype}\n"
        text += f"Confidence shape: {type(self.confidence)} {self.confidence.shape}, {self.data.dtype}\n"
        text += f"Duration (seconds): {len(self.data) / self.fps}\n"
        return text
