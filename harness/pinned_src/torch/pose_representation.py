from typing import List

import torch

from ..pose_header import PoseHeader
from ..pose_representation import PoseRepresentation


class TorchPoseRepresentation(PoseRepresentation):
    """
    TorchPoseRepresentation class representing pose information using PyTorch tensors.

    This class extends the PoseRepresentation class and provides methods for manipulating and representing pose data
    using PyTorch tensors.

    Parameters
    ----------
    header : PoseHeader
        Header describing the pose data structure.
    rep_modules1 : List
        List of additional representation modules (level 1) to apply to pose data.
    rep_modules2 : List
        List of additional representation modules (level 2) to apply to pose data.
    rep_modules3 : List
        List of additional representation modules (level 3) to apply to pose data.
    """

    def __init__(self, header: PoseHeader, rep_modules1: List = [], rep_modules2: List = [], rep_modules3: List = []):
        super(TorchPoseRepresentation, self).__init__(header, rep_modules1, rep_modules2, rep_modules3)

        # Change limb points to torch
        self.limb_pt1s = torch.tensor(self.limb_pt1s, dtype=torch.long)
        self.limb_pt2s = torch.tensor(self.limb_pt2s, dtype=torch.long)

        # Change triangle points to torch
        self.triangle_pt1s = torch.tensor(self.triangle_pt1s, dtype=torch.long)
        self.triangle_pt2s = torch.tensor(self.triangle_pt2s, dtype=torch.long)
        self.triangle_pt3s = torch.tensor(self.triangle_pt3s, dtype=torch.long)

    def group_embeds(self, embeds: List[torch.Tensor]):
        """
        Group and reshape embedded tensors for batch processing.

        Parameters
        ----------
        embeds : List[torch.Tensor]
            List of embedded tensors of size (embed_size, Batch, Len).

        Returns
        -------
        torch.Tensor
            A tensor of size (Batch, Len, embed_size) with grouped and reshaped embedded tensors.

        """
        group = torch.cat(embeds, dim=0)  # (embed_size, Batch, Len)
        return group.permute(dims=[1, 2, 0])

    def permute(self, src, shape: tuple):
        """
        Permute dimensions of tensor according to a specified shape (tuple).

        Parameters
        ----------
        src : torch.Tensor
            tensor to  permute
        shape : tuple
            desired shape of the tensor after permutation.

        Returns
        -------
        torch.Tensor
            tensor with permuted dimensions according to specified shape.

        """
        return src.permute(shape)
