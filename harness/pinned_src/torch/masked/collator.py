from typing import Dict, List, Tuple, Union

import numpy as np
import torch
from pose_format.torch.masked import MaskedTensor, MaskedTorch


def pad_tensors(batch: List[Union[torch.Tensor, MaskedTensor]], pad_value=0):
    datum = batch[0]
    torch_cls = MaskedTorch if isinstance(datum, MaskedTensor) else torch

    max_len = max(len(t) for t in batch)
    if all(len(t) == max_len for t in batch):  # nothing to pad
        return torch_cls.stack(batch, dim=0)

    new_batch = []
    for tensor in batch:
        missing = list(tensor.shape)
        missing[0] = max_len - tensor.shape[0]

        if missing[0] > 0:
            padding_tensor = torch.full(missing, fill_value=pad_value, dtype=tensor.dtype, device=tensor.device)
            if isinstance(tensor, MaskedTensor):
                padding_tensor = MaskedTensor(tensor=padding_tensor, mask=torch.zeros_like(padding_tensor, dtype=torch.bool))
            tensor = torch_cls.cat([tensor, padding_tensor], dim=0)

        new_batch.append(tensor)

    return torch_cls.stack(new_batch, dim=0)


def collate_tensors(batch: List, pad_value=0) -> Union[torch.Tensor, List]:
    datum = batch[0]

    if isinstance(datum, dict):  # Recurse over dictionaries
        return zero_pad_collator(batch)

    if isinstance(datum, (int, np.int32)):
        return torch.tensor(batch, dtype=torch.long)

    if isinstance(datum, (MaskedTensor, torch.Tensor)):
        return pad_tensors(batch, pad_value=pad_value)

    return batch


def zero_pad_collator(batch) -> Union[Dict[str, torch.Tensor], Tuple[torch.Tensor, ...]]:
    datum = batch[0]

    # For strings
    if isinstance(datum, str):
        return batch

    # For tuples
    if isinstance(datum, tuple):
        return tuple(collate_tensors([b[i] for b in batch]) for i in range(len(datum)))

    # For tensors
    if isinstance(datum, MaskedTensor):
        return collate_tensors(batch)

    # For dictionaries
    keys = datum.keys()
    return {k: collate_tensors([b[k] for b in batch]) for k in keys}


