import torch


class MaskedTensor:
    """
    Container for a PyTorch tensor, providing utility functions for tensor masking.

    Parameters
    ----------
    tensor : torch.Tensor
        Tensor data.
    mask : torch.Tensor, optional
        A boolean mask tensor of the same shape as `tensor`. If specified, elements 
        of `tensor` corresponding to `True` values in the mask are considered valid. 
        Defaults to a tensor of all `True` values.
    """

    def __init__(self, tensor: torch.Tensor, mask: torch.Tensor = None):
        self.tensor = tensor
        self.mask = mask if mask is not None else torch.ones(tensor.shape, dtype=torch.bool).to(tensor.device)

    def __getattr__(self, item):
        """
        Gets attributes of tensor.

        Raises
        ------
        NotImplementedError
            If called attribute is not implemented.
        """
        val = self.tensor.__getattribute__(item)
        if hasattr(val, '__call__'):  # If is a function
            # return getattr(MaskedTorch, item)(self)
            raise NotImplementedError("callbable '%s' not defined" % item)
        else:
            return val

    def __len__(self):
        """
        Gets size of first dimension of the tensor.

        Returns
        -------
        int
            Size of first dimension of tensor.
        """
        return self.tensor.shape[0]

    def __getitem__(self, key):
        """
        Get a subset of a tensor based on a key or slice.

        Returns
        -------
        :class:`~pose_format.torch.masked.tensor.MaskedTensor`
            Subset of the tensor.
        """
        tensor = self.tensor[key]
        mask = self.mask[key]
        return MaskedTensor(tensor=tensor, mask=mask)

    def arithmetic(self, action: str, other):
        """
        Helper method to perform arithmetic operations on tensors.

        Parameters
        ----------
        action : str
            The arithmetic operation to be performed.
        other : Union[~pose_format.torch.masked.tensor.MaskedTensor`, torch.Tensor, float, int]
            The second operand.

        Returns
        -------
        :class:`~pose_format.torch.masked.tensor.MaskedTensor`
            New `MaskedTensor` after the operation.
        """
        if isinstance(other, MaskedTensor):
            tensor = getattr(self.tensor, action)(other.tensor)
            mask = self.mask & other.mask
        else:
            tensor = getattr(self.tensor, action)(other)
            mask = self.mask.expand(tensor.shape)
        return MaskedTensor(tensor=tensor, mask=mask)

    def __add__(self, other):
        """
        Performs element-wise addition with another tensor or scalar.

        Parameters
        ----------
        other : Union[:class:`~pose_format.torch.masked.tensor.MaskedTensor`, torch.Tensor, float, int]
            The tensor or scalar to add.

        Returns
        -------
        :class:`~pose_format.torch.masked.tensor.MaskedTensor`
            Resultant tensor after addition.
        """
        return self.arithmetic("__add__", other)

    def __sub__(self, other):
        """
        Performs element-wise subtraction with another tensor or scalar.

        Parameters
        ----------
        other : Union[:class:`~pose_format.torch.masked.tensor.MaskedTensor`, torch.Tensor, float, int]
            The tensor or scalar to subtract.

        Returns
        -------
        :class:`~pose_format.torch.masked.tensor.MaskedTensor`
            Resultant tensor after subtraction.
        """
        return self.arithmetic("__sub__", other)

    def __mul__(self, other):
        """
        Performs element-wise multiplication with another tensor or scalar.

        Parameters
        ----------
        other : Union[:class:`~pose_format.torch.masked.tensor.MaskedTensor`, torch.Tensor, float, int]
            The tensor or scalar to multiply.

        Returns
        -------
        :class:`~pose_format.torch.masked.tensor.MaskedTensor`
            Resultant tensor after multiplication.
        """
        return self.arithmetic("__mul__", other)

    def __truediv__(self, other):
        """
        Performs element-wise division with another tensor or scalar.

        Parameters
        ----------
        other : Union[:class:`~pose_format.torch.masked.tensor.MaskedTensor`, torch.Tensor, float, int]
            The tensor or scalar to divide by.

        Returns
        -------
        :class:`~pose_format.torch.masked.tensor.MaskedTensor`
            Resultant tensor after division.
        """
        return self.arithmetic("__truediv__", other)

    def __eq__(self, other):
        """
        Compares the tensor for element-wise equality with another tensor.

        Parameters
        ----------
        other : torch.Tensor
            The tensor to compare.

        Returns
        -------
        torch.Tensor
            A boolean tensor with `True` where elements are equal and `False` otherwise.
        """
        return self.tensor == other

    def pow_(self, exponent: float):
        """
        Raises tensor to power of a given exponent in-place.

        Parameters
        ----------
        exponent : float
            The exponent value.

        Returns
        -------
        :class:`~pose_format.torch.masked.tensor.MaskedTensor`
            Masked tensor raised to a given exponent.
        """
        self.tensor.pow_(exponent)
        return self

    def sum(self, dim: int):
        """
        Sums along a specified dimension.

        Parameters
        ----------
        dim : int
            dimension to sum over.

        Returns
        -------
        :class:`~pose_format.torch.masked.tensor.MaskedTensor`
            Summed tensor along the specified dimension.
        """
        tensor = self.tensor.sum(dim=dim)
        mask = self.mask.prod(dim=dim).bool()
        return MaskedTensor(tensor=tensor, mask=mask)

    def size(self, *args):
        """
        Get size of tensor for specified dimensions.

        Returns
        -------
        torch.Size
            Size of tensor.
        """
        return self.tensor.size(*args)

    def fix_nan(self):  # TODO think of faster way
        """
        Replaces any NaN values in the tensor with zeros.

        Returns
        -------
        :class:`~pose_format.torch.masked.tensor.MaskedTensor`
            Tensor with NaN values replaced by zeros.
        """
        self.tensor[self.tensor != self.tensor] = 0
        return self

    def to(self, device):
        """
        Moves tensor to a custom device.

        Parameters
        ----------
        device : str or torch.device
            The target device.

        Returns
        -------
        :class:`~pose_format.torch.masked.tensor.MaskedTensor`
            Tensor on the other device.
        """
        tensor = self.tensor.to(device)
        mask = self.mask.to(device)
        return MaskedTensor(tensor=tensor, mask=mask)

    def cuda(self, device=None, non_blocking: bool = False):
        """
        Moves tensor to the GPU.

        Parameters
        ----------
        device : str or torch.device, optional
            The target CUDA device.
        non_blocking : bool, optional
            Whether to perform an operation asynchronously. Default is False.

        Returns
        -------
        :class:`~pose_format.torch.masked.tensor.MaskedTensor`
            Tensor on CUDA device.
        """
        tensor = self.tensor.cuda(device=device, non_blocking=non_blocking)
        mask = self.mask.cuda(device=device, non_blocking=non_blocking)
        return MaskedTensor(tensor=tensor, mask=mask)

    def zero_filled(self) -> torch.Tensor:
        """
        Get tensor with masked values set to zero.

        Returns
        -------
        torch.Tensor
            Tensor with masked values set to zero.
        """
        return torch.where(self.mask.bool(), self.tensor, torch.zeros_like(self.tensor))

    def div(self, other: "MaskedTensor", in_place=False, update_mask=True):
        """
        Performs element-wise division with another tensor.

        Parameters
        ----------
        other : :class:`~pose_format.torch.masked.tensor.MaskedTensor`
            The tensor to divide with.
        in_place : bool, optional
            If True, performs the operation in-place. Default is False.
        update_mask : bool, optional
            If True, updates the mask after division. Default is True.

        Returns
        -------
        :class:`~pose_format.torch.masked.tensor.MaskedTensor`
            Resultant tensor after division.
        """
        tensor = torch.div(self.tensor, other.tensor, out=self.tensor if in_place else None)
        mask = self.mask & other.mask if update_mask else self.mask.expand(tensor.shape)
        return MaskedTensor(tensor, mask)

    def matmul(self, matrix: torch.Tensor):
        """
        Perform matrix multiplication.

        Parameters
        ----------
        matrix : torch.Tensor
            matrix to multiply with.

        Returns
        -------
        :class:`~pose_format.torch.masked.tensor.MaskedTensor`
            New masked tensor after multiplication.
        """
        tensor = torch.matmul(self.tensor, matrix.to(self.device))
        mask = self.mask.bool().all(dim=-1, keepdim=True).expand(tensor.shape)
        return MaskedTensor(tensor, mask)

    def transpose(self, dim0, dim1):
        """
        Transposes tensor along two dimensions.

        Parameters
        ----------
        dim0, dim1 : int
            Two dimensions to which to transpose.

        Returns
        -------
        :class:`~pose_format.torch.masked.tensor.MaskedTensor`
            Transposed masked tensor.
        """
        tensor = self.tensor.transpose(dim0, dim1)
        mask = self.mask.transpose(dim0, dim1)
        return MaskedTensor(tensor=tensor, mask=mask)

    def permute(self, dims: tuple):
        """
        Permute dimensions of tensor.

        Parameters
        ----------
        dims : tuple
            Desired ordering of dimensions.

        Returns
        -------
        :class:`~pose_format.torch.masked.tensor.MaskedTensor`
            Permuted masked tensor.
        """
        tensor = self.tensor.permute(dims)
        mask = self.mask.permute(dims)
        return MaskedTensor(tensor=tensor, mask=mask)

    def squeeze(self, dim):
        """
        Squeeze tensor along chosen dimension.

        Parameters
        ----------
        dim : int
            Dimension to squeeze.

        Returns
        -------
        :class:`~pose_format.torch.masked.tensor.MaskedTensor`
            Squeezed masked tensor.
        """
        tensor = self.tensor.squeeze(dim)
        mask = self.mask.squeeze(dim)
        return MaskedTensor(tensor=tensor, mask=mask)

    def split(self, split_size_or_sections, dim=0):
        """
        Split tensor into multiple tensors.

        Parameters
        ----------
        split_size_or_sections : int or tuple
            Size or sections to split tensor.
        dim : int, optional
            Dimension along which to split tensor. Default is 0.

        Returns
        -------
        list[:class:`~pose_format.torch.masked.tensor.MaskedTensor`]
            List of split tensors.
        """
        tensors = torch.split(self.tensor, split_size_or_sections, dim)
        masks = torch.split(self.mask, split_size_or_sections, dim)
        return [MaskedTensor(tensor=tensor, mask=mask) for tensor, mask in zip(tensors, masks)]

    def reshape(self, shape: tuple):
        """
        Reshape tensor to given shape.

        Parameters
        ----------
        shape : tuple
            Desired shape.

        Returns
        -------
        :class:`~pose_format.torch.masked.tensor.MaskedTensor`
            Reshaped tensor.
        """
        tensor = self.tensor.reshape(shape=shape)
        mask = self.mask.reshape(shape=shape)
        return MaskedTensor(tensor=tensor, mask=mask)

    def rename(self, *names):
        """
        Rename tensor's dimensions.

        Parameters
        ----------
        names : tuple
            Desired names for each dimension.

        Returns
        -------
        :class:`~pose_format.torch.masked.tensor.MaskedTensor`
            Renamed masked tensor.
        """
        tensor = self.tensor.rename(*names)
        mask = self.mask.rename(*names)
        return MaskedTensor(tensor=tensor, mask=mask)

    def __getstate__(self):
        return vars(self)

    def __setstate__(self, state):
        vars(self).update(state)
