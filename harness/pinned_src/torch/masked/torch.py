from typing import List, Union

import torch

from pose_format.torch.masked.tensor import MaskedTensor


class TorchFallback(type):
    """Meta class that gives a fallback mechanism to use torch functions on :class:`~pose_format.torch.masked.tensor.MaskedTensor` objects. :noindex:"""
    doesnt_change_mask = {"sqrt", "square", "cos", "sin", "tan", "acos", "asin", "atan"}

    def __getattr__(cls, attr):
        """
        Redirects calls to PyTorch functions to handle :class:`~pose_format.torch.masked.tensor.MaskedTensor` instances.

        If the first argument is a :class:`~pose_format.torch.masked.tensor.MaskedTensor`, its mask is taken into account.
        """

        def func(*args, **kwargs):
            if len(args) > 0 and isinstance(args[0], MaskedTensor):
                args = list(args)
                mask = args[0].mask
                args[0] = args[0].tensor

                res = getattr(torch, attr)(*args, **kwargs)
                if attr in TorchFallback.doesnt_change_mask:
                    return MaskedTensor(res, mask)
                else:
                    return res

            else:  # If this action is done on an unmasked tensor
                return getattr(torch, attr)(*args, **kwargs)

        return func


class MaskedTorch(metaclass=TorchFallback):
    """class mimicing torch functions and giving  support for :class:`~pose_format.torch.masked.tensor.MaskedTensor`."""

    @staticmethod
    def cat(tensors: List[Union[MaskedTensor, torch.Tensor]], dim: int) -> MaskedTensor:
        """
        Concatenate :class:`~pose_format.torch.masked.tensor.MaskedTensor` objects along a specified dimension.

        Parameters
        ----------
        tensors : list
            List of tensors or :class:`~pose_format.torch.masked.tensor.MaskedTensor` objects to be concatenated.
        dim : int
            Dimension along to concatenate.

        Returns
        -------
        :class:`~pose_format.torch.masked.tensor.MaskedTensor`
            Concatenated tensor.
        """
        tensors: List[MaskedTensor] = [t if isinstance(t, MaskedTensor) else MaskedTensor(tensor=t) for t in tensors]
        tensor = torch.cat([t.tensor for t in tensors], dim=dim)
        mask = torch.cat([t.mask for t in tensors], dim=dim)
        return MaskedTensor(tensor=tensor, mask=mask)

    @staticmethod
    def stack(tensors: List[MaskedTensor], dim: int) -> MaskedTensor:
        """
        Stack :class:`~pose_format.torch.masked.tensor.MaskedTensor` objects along a new dimension.

        Parameters
        ----------
        tensors : list
            List of :class:`~pose_format.torch.masked.tensor.MaskedTensor` objects to be stacked.
        dim : int
            New dimension along which to stack.

        Returns
        -------
        :class:`~pose_format.torch.masked.tensor.MaskedTensor`
            Stacked maked tensor.
        """
        tensor = torch.stack([t.tensor for t in tensors], dim=dim)
        mask = torch.stack([t.mask for t in tensors], dim=dim)
        return MaskedTensor(tensor=tensor, mask=mask)

    @staticmethod
    def zeros(*size, dtype=None) -> MaskedTensor:
        """
        Creates a :class:`~pose_format.torch.masked.tensor.MaskedTensor` of zeros with a given shape and data type.

        Parameters
        ----------
        *size : ints
            Dimensions of desired tensor.
        dtype : torch.dtype, optional
            Data type of the tensor. If None, defaults to `torch.float`.

        Returns
        -------
        :class:`~pose_format.torch.masked.tensor.MaskedTensor`
            masked tensor filled with zeros.
        """
        tensor = torch.zeros(*size, dtype=dtype)
        mask = torch.zeros(*size, dtype=torch.bool)
        return MaskedTensor(tensor=tensor, mask=mask)

    @staticmethod
    def squeeze(masked_tensor: MaskedTensor) -> MaskedTensor:
        """
        Remove dimensions of size 1 from :class:`~pose_format.torch.masked.tensor.MaskedTensor`.

        Parameters
        ----------
        masked_tensor : :class:`~pose_format.torch.masked.tensor.MaskedTensor`
            tensor from which dimensions are to be removed.

        Returns
        -------
        :class:`~pose_format.torch.masked.tensor.MaskedTensor`
            Squeezed masked tensor.
        """
        tensor = torch.squeeze(masked_tensor.tensor)
        mask = torch.squeeze(masked_tensor.mask)
        return MaskedTensor(tensor=tensor, mask=mask)
