from pose_format.torch.masked.tensor import MaskedTensor
from pose_format.torch.masked.torch import MaskedTorch
