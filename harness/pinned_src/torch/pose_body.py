from typing import List, Union

import numpy as np
import torch

from ..pose_body import POINTS_DIMS, PoseBody
from .masked.tensor import MaskedTensor


class TorchPoseBody(PoseBody):
    """
    TorchPoseBody class of pose information with PyTorch tensors.

    This class extends the PoseBody class and provides methods for manipulating pose data using PyTorch tensors.
    """

    """str: Reader format for unpacking Torch tensors."""
    tensor_reader = 'unpack_torch'

    def __init__(self, fps: float, data: Union[MaskedTensor, torch.Tensor], confidence: torch.Tensor):
        if isinstance(data, torch.Tensor):  # If array is not masked
            mask = confidence != 0
            stacked_mask = torch.stack([mask] * data.shape[-1], dim=3)
            data = MaskedTensor(data, stacked_mask)

        super().__init__(fps, data, confidence)

    def cuda(self):
        """Move data and confidence of tensors to GPU"""
        self.data = self.data.cuda()
        self.confidence = self.confidence.cuda()

    def copy(self) -> 'TorchPoseBody':
        data_copy = MaskedTensor(tensor=self.data.tensor.detach().clone().to(self.data.tensor.device),
                                 mask=self.data.mask.detach().clone().to(self.data.mask.device),
                                 )
        confidence_copy = self.confidence.detach().clone().to(self.confidence.device)

        return self.__class__(fps=self.fps,
                             data=data_copy,
                             confidence=confidence_copy)


    def zero_filled(self) -> 'TorchPoseBody':
        """
        Fill invalid values with zeros.

        Returns
        -------
        TorchPoseBody
            TorchPoseBody instance with masked data filled with zeros.

        """
        copy = self.copy()
        copy.data = copy.data.zero_filled()
        return copy

    def matmul(self, matrix: np.ndarray) -> 'TorchPoseBody':
        """
        Matrix multiplication on pose data.

        Parameters
        ----------
        matrix : np.ndarray
            matrix to perform multiplication with

        Returns
        -------
        TorchPoseBody
            A new TorchPoseBody instance with results of matrix multiplication.

        """
        data = self.data.matmul(torch.from_numpy(matrix))
        return self.__class__(fps=self.fps, data=data, confidence=self.confidence)

    def points_perspective(self):
        """
        Get pose data with dimensions permuted according to POINTS_DIMS.

        Returns
        -------
        :class:`~pose_format.torch.masked.tensor.MaskedTensor`
            A :class:`~pose_format.torch.masked.tensor.MaskedTensor` instance with dimensions permuted for points perspective.

        """
        return self.data.permute(POINTS_DIMS)

    def get_points(self, indexes: List[int]):
        """
        Get specific points from pose data.

        Parameters
        ----------
        indexes : List[int]
            List of indexes specifying the points that you need.

        Returns
        -------
        TorchPoseBody
            New TorchPoseBody instance containing specified points and associated confidence values.

        """
        data = self.points_perspective()
        new_data = data[indexes].permute(POINTS_DIMS)

        confidence_reshape = (2, 1, 0)
        confidence = self.confidence.permute(confidence_reshape)
        new_confidence = confidence[indexes].permute(confidence_reshape)

        return self.__class__(self.fps, new_data, new_confidence)

    def flatten(self):
        """
        Flatten pose data along the associated confidence values.

        Returns
        -------
        torch.Tensor
            Flattened tensor containing indexes, confidence values, and data.

        """
        shape = self.data.shape
        data = self.data.tensor.reshape(-1, shape[-1])  # Not masked data
        confidence = self.confidence.flatten()
        indexes = torch.tensor(list(np.ndindex(shape[:-1])), dtype=torch.float32, device=data.device)
        flat = torch.cat([indexes, torch.unsqueeze(confidence, dim=1), data], dim=1)
        # Filter data from flat
        flat = flat[confidence != 0.]
        # Scale the first axis by fps
        scalar = torch.ones(len(shape) + shape[-1], device=data.device)
        scalar[0] = 1 / self.fps
        return flat * scalar



