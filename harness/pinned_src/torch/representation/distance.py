import torch
from torch import nn

from pose_format.torch.masked.tensor import MaskedTensor
from pose_format.torch.masked.torch import MaskedTorch


class DistanceRepresentation(nn.Module):
    """
    Represents the Euclidean distance between two points in space.
    """

    def distance(self, p1s: MaskedTensor, p2s: MaskedTensor) -> MaskedTensor:
        """
        Calculate the Euclidean distance between two sets of points.
        
        Parameters
        ----------
        p1s : :class:`~pose_format.torch.masked.tensor.MaskedTensor`
            Tensor representing the first set of points.
        
        p2s : :class:`~pose_format.torch.masked.tensor.MaskedTensor`
            Tensor representing the second set of points.
        
        Returns
        -------
        :class:`~pose_format.torch.masked.tensor.MaskedTensor`
            Tensor representing the calculated distances.
        """
        diff = p1s - p2s  # (..., Len, Dims)
        square = diff.pow_(2)
        sum_squares = square.sum(dim=-1)
        return MaskedTorch.sqrt(sum_squares)

    def forward(self, p1s: MaskedTensor, p2s: MaskedTensor) -> torch.Tensor:
        """
        Computes Euclidean distance between two sets of points.
        
        Parameters
        ----------
        p1s : :class:`~pose_format.torch.masked.tensor.MaskedTensor`
            Tensor representing the first set of points. Shape: (Points, Batch, Len, Dims).
        
        p2s : :class:`~pose_format.torch.masked.tensor.MaskedTensor`
            Tensor representing the second set of points. Shape: (Points, Batch, Len, Dims).
        
        Returns
        -------
        torch.Tensor
            Tensor representing the Euclidean distances. Shape: (Points, Batch, Len).
        """
        return self.distance(p1s, p2s).zero_filled()
