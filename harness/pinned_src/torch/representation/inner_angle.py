import torch
from torch import nn

from ..masked.tensor import MaskedTensor
from ..masked.torch import MaskedTorch


def get_vectors_norm(vectors: MaskedTensor):
    """
    Computes the normalized vectors from the given masked vectors.

    Parameters
    ----------

    vectors : :class:`~pose_format.torch.masked.tensor.MaskedTensor`
        The input masked vectors with any shape.

    Returns
    -------
    :class:`~pose_format.torch.masked.tensor.MaskedTensor`
        The normalized masked vectors of the same shape as the input.
    Notes
    -----
    The function squares the input vectors, then sums along the last dimension. 
    Taking the square root of the sum provides the magnitude. The original vectors 
    are then divided by this magnitude to normalize.
    """
    square = MaskedTorch.square(vectors)
    summed = square.sum(dim=-1)
    v_mag = MaskedTorch.sqrt(summed)
    mag_stack = MaskedTorch.stack([v_mag] * vectors.shape[-1], dim=-1)
    return vectors.div(mag_stack)


class InnerAngleRepresentation(nn.Module):
    """
    A neural network module to compute the inner angle at a point for a triangle.
    """

    def forward(self, p1s: MaskedTensor, p2s: MaskedTensor, p3s: MaskedTensor) -> torch.Tensor:
        """
        Computes the angle in point `p2s` for the triangle defined by the points <p1s, p2s, p3s>.
        
        Parameters
        ----------
        p1s : :class:`~pose_format.torch.masked.tensor.MaskedTensor`
            A tensor representing the first set of points, with shape (Points, Batch, Len, Dims).
        p2s : :class:`~pose_format.torch.masked.tensor.MaskedTensor`
            A tensor representing the second set of points (at which the angle is calculated), with shape (Points, Batch, Len, Dims).
        p3s : :class:`~pose_format.torch.masked.tensor.MaskedTensor`
            A tensor representing the third set of points, with shape (Points, Batch, Len, Dims).

        Returns
        -------
        torch.Tensor
            A tensor representing the computed angles at point `p2s`, with shape (Points, Batch, Len).

        Note
        ----
        The method is based on the approach suggested in: 
        https://stackoverflow.com/questions/19729831/angle-between-3-points-in-3d-space
        
        The function first computes the vectors v1 and v2 by subtracting points p1s and p3s 
        from p2s, respectively. The vectors are then normalized. The angle is calculated by 
        finding the arccosine of the dot product of the normalized vectors. NaN values in 
        the resulting tensor are set to zero.
        """

        # Following https://stackoverflow.com/questions/19729831/angle-between-3-points-in-3d-space
        v1 = p1s - p2s  # (Points, Batch, Len, Dims)
        v2 = p3s - p2s  # (Points, Batch, Len, Dims)

        v1_norm = get_vectors_norm(v1)
        v2_norm = get_vectors_norm(v2)

        slopes = (v1_norm * v2_norm).sum(dim=-1)
        angles = MaskedTorch.acos(slopes)

        angles = angles.zero_filled()
        angles[angles != angles] = 0  # Fix NaN, TODO think of faster way

        return angles
