import torch
from torch import nn

from ..masked.tensor import MaskedTensor


class AngleRepresentation(nn.Module):
    """
    Class to compute the angle between the X/Y axis and the line segments formed by two sets of points.
    """

    def forward(self, p1s: MaskedTensor, p2s: MaskedTensor) -> torch.Tensor:
        """
        Computes angle in radians between X/Y axis and line segments made by two sets of points.
        
        Parameters
        ----------
        p1s : :class:`~pose_format.torch.masked.tensor.MaskedTensor`
            A tensor representing the first set of points with shape (Points, Batch, Len, Dims).
        
        p2s : :class:`~pose_format.torch.masked.tensor.MaskedTensor`
            A tensor representing the second set of points with the same shape as `p1s`.
        
        Returns
        -------
        torch.Tensor
            A tensor of angles (in radians) with shape (Points, Batch, Len).
        
        Note
        ----
        The slope is determined for each pair of points. The arctangent function is then applied to calculate the angle in radians.
        """
        dims = p1s.shape[-1]

        d = p2s - p1s  # (Points, Batch, Len, Dims)
        xs, ys = d.split([1] * dims, dim=3)[:2]  # (Points, Batch, Len, 1)
        slopes = ys.div(xs).fix_nan().zero_filled().squeeze(axis=3)

        return torch.atan(slopes)


if __name__ == "__main__":
    representation = AngleRepresentation()
    p1s = MaskedTensor(torch.tensor([[[[1, 2, 3]]]], dtype=torch.float))
    print(p1s.shape)

    p2s = MaskedTensor(torch.tensor([[[[4, 5, 6]]]], dtype=torch.float))
    angles = representation(p1s, p2s)
    print(angles)
