import torch
from torch import nn

from ..masked.tensor import MaskedTensor


class PointsRepresentation(nn.Module):
    """
    Class to represent points in a tensor format for processing.
  """

    def forward(self, p1s: MaskedTensor) -> torch.Tensor:
        """
    Transforms input tensor representing points into a desired tensor format.
    
    The transformation process with zero-filling the masked values in input tensor 
    and reshaping tensor by transposing its dimensions to match the desired output format.

    Parameters
    ----------
    p1s : :class:`~pose_format.torch.masked.tensor.MaskedTensor`
        Tensor representing a set of points.
        Shape: (Points, Batch, Len, Dims).

    Returns
    -------
    torch.Tensor
        Transformed tensor representing the points.
        Shape: (Points*Dims, Batch, Len).

    Note
    ----
    This method first fills  masked values in input tensor with zeros.
    Then, it reshapes tensor by transposing dimensions to match its desired output format
    """

        p1s = p1s.zero_filled()
        p1s = p1s.transpose(1, 3)  # (Points, Dims, Len, Batch)
        p1s = p1s.transpose(2, 3)  # (Points, Dims, Batch, Len)
        shape = p1s.shape

        return p1s.reshape((-1, shape[2], shape[3]))
