import torch
from torch import nn

from ..masked.tensor import MaskedTensor
from ..masked.torch import MaskedTorch
from .distance import DistanceRepresentation


class PointLineDistanceRepresentation(nn.Module):
    """
    Class computing distance between a point and a line segment.
    
    Parameters
    ----------
    distance : :class:`~pose_format.torch.representation.distance.DistanceRepresentation`
        Instance of the `DistanceRepresentation` class to compute the Euclidean distance.

    """

    def __init__(self):
        super(PointLineDistanceRepresentation, self).__init__()
        self.distance = DistanceRepresentation()

    def forward(self, p1s: MaskedTensor, p2s: MaskedTensor, p3s: MaskedTensor) -> torch.Tensor:
        """
        Computes  distance from the point `p1s` to the line formed by points `p2s` and `p3s`.
        
        The method uses Heron's Formula to find the area of the triangle formed by the three points
        and then calculates the height of the triangle to determine the distance from the point 
        `p1s` to the line <p2s, p3s>.
        
        Parameters
        ----------
        p1s : :class:`~pose_format.torch.masked.tensor.MaskedTensor`
            Tensor representing the point for which the distance to the line is calculated.
            Shape: (Points, Batch, Len, Dims).
        
        p2s : :class:`~pose_format.torch.masked.tensor.MaskedTensor`
            Tensor representing one end-point of the line. 
            Shape: (Points, Batch, Len, Dims).
        
        p3s : :class:`~pose_format.torch.masked.tensor.MaskedTensor`
            Tensor representing the other end-point of the line.
            Shape: (Points, Batch, Len, Dims).
        
        Returns
        -------
        torch.Tensor
            Tensor representing the distances from the point `p1s` to the line <p2s, p3s>.
            Shape: (Points, Batch, Len).
        
        Note
        ----
        This is following Heron's Formula: https://en.wikipedia.org/wiki/Heron%27s_formula.
        """
        # Following Heron's Formula https://en.wikipedia.org/wiki/Heron%27s_formula
        a = self.distance.distance(p1s, p2s)
        b = self.distance.distance(p2s, p3s)
        c = self.distance.distance(p1s, p3s)
        s: MaskedTensor = (a + b + c) / 2
        squared = s * (s - a) * (s - b) * (s - c)
        area = MaskedTorch.sqrt(squared)

        # Calc "height" of the triangle
        square_area: MaskedTensor = area * 2
        distance = square_area / b
        distance.fix_nan()

        return distance.zero_filled()
