#!/usr/bin/env python
import argparse
import os
from pose_format.pose import Pose




def pose_info(input_path: str):
    with open(input_path, "rb") as f:
        pose = Pose.read(f.read())

    print(pose)



def main():
    parser = argparse.ArgumentParser()
    parser.add_argument('-i', required=True, type=str, help='path to input pose file')

    args = parser.parse_args()

    if not os.path.exists(args.i):
        raise FileNotFoundError(f"Pose file {args.i} not found")

    pose_info(args.i)
