#!/usr/bin/env python
import argparse
import os

import cv2
from pose_format.utils.holistic import load_holistic


def load_video_frames(cap: cv2.VideoCapture):
    while True:
        ret, frame = cap.read()
        if not ret:
            break
        yield cv2.cvtColor(frame, cv2.COLOR_BGR2RGB)
    cap.release()


def pose_video(input_path: str, output_path: str, format: str, additional_config: dict = {'model_complexity': 1}, progress: bool = True):
    # Load video frames
    print('Loading video ...')
    cap = cv2.VideoCapture(input_path)
    width = int(cap.get(cv2.CAP_PROP_FRAME_WIDTH))
    height = int(cap.get(cv2.CAP_PROP_FRAME_HEIGHT))
    fps = cap.get(cv2.CAP_PROP_FPS)
    frames = load_video_frames(cap)

    # Perform pose estimation
    print('Estimating pose ...')
    if format == 'mediapipe':
        pose = load_holistic(frames,
                             fps=fps,
                             width=width,
                             height=height,
                             progress=progress,
                             additional_holistic_config=additional_config)
    else:
        raise NotImplementedError('Pose format not supported')

    # Write
    print('Saving to disk ...')
    with open(output_path, "wb") as f:
        pose.write(f)


def parse_additional_config(config: str):
    if not config:
        return {}
    config = config.split(',')

    def parse_value(value):
        try:
            return int(value)
        except ValueError:
            pass
        try:
            return float(value)
        except ValueError:
            pass
        if value.lower() == 'true':
            return True
        if value.lower() == 'false':
            return False
        return value

    return {k: parse_value(v) for k, v in [c.split('=') for c in config]}


def main():
    parser = argparse.ArgumentParser()
    parser.add_argument('-i', required=True, type=str, help='path to input video file')
    parser.add_argument('-o', required=True, type=str, help='path to output pose file')
    parser.add_argument('--format',
                        choices=['mediapipe'],
                        default='mediapipe',
                        type=str,
                        help='type of pose estimation to use')
    parser.add_argument('--additional-config', type=str, help='additional configuration for the pose estimator')

    args = parser.parse_args()

    if not os.path.exists(args.i):
        raise FileNotFoundError(f"Video file {args.i} not found")

    additional_config = parse_additional_config(args.additional_config)
    pose_video(args.i, args.o, args.format, additional_config)

    # pip install . && video_to_pose -i como.mp4 -o como1.pose --format mediapipe
    # pip install . && video_to_pose -i como.mp4 -o como2.pose --format mediapipe --additional-config="model_complexity=2,smooth_landmarks=false,refine_face_landmarks=true"
    # pip install . && video_to_pose -i sparen.mp4 -o sparen.pose --format mediapipe --additional-config="model_complexity=2,smooth_landmarks=false,refine_face_landmarks=true"
