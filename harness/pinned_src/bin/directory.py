import argparse
from pathlib import Path
from pose_format.bin.pose_estimation import pose_video, parse_additional_config
from typing import List
import logging
from tqdm import tqdm
from tqdm.contrib.concurrent import process_map
import psutil
import os
from functools import partial

# Note: untested other than .mp4. Support for .webm may have issues: https://github.com/sign-language-processing/pose/pull/126
SUPPORTED_VIDEO_FORMATS = [".mp4", ".mov", ".avi", ".mkv", ".flv", ".wmv", ".webm"]


def find_videos_with_missing_pose_files(
    directory: Path,
    video_suffixes: List[str] = None,
    recursive: bool = False,
    keep_video_suffixes: bool = False,
) -> List[Path]:
    """
    Finds videos with missing .pose files.

    Parameters
    ----------
    directory: Path,
        Directory to search for videos in.
    video_suffixes:  List[str], optional
        Suffixes to look for, e.g. [".mp4", ".webm"]. If None, will use _SUPPORTED_VIDEO_FORMATS
    recursive: bool, optional
        Whether to look for video files recursively, or just the top-level. Defaults to false.
    keep_video_suffixes: bool, optional
        If true, when checking will append .pose suffix (e.g. foo.mp4->foo.mp4.pose, foo.webm->foo.webm.pose),
        If false, will replace it (foo.mp4 becomes foo.pose, and foo.webm ALSO becomes foo.pose).
        Default is false, which can cause name collisions.

    Returns
    -------
    List[Path]
        List of video paths without corresponding .pose files.
    """

    # Prevents the common gotcha with mutable default arg lists:
    # https://docs.python-guide.org/writing/gotchas/#mutable-default-arguments
    if video_suffixes is None:
        video_suffixes = SUPPORTED_VIDEO_FORMATS

    glob_method = getattr(directory, "rglob" if recursive else "glob")
    all_files = list(glob_method(f"*"))
    video_files = [path for path in all_files if path.suffix in video_suffixes]
    pose_files = {path for path in all_files if path.suffix == ".pose"}

    videos_with_missing_pose_files = []

    for vid_path in video_files:
        corresponding_pose = get_corresponding_pose_path(video_path=vid_path, keep_video_suffixes=keep_video_suffixes)
        if corresponding_pose not in pose_files:
            videos_with_missing_pose_files.append(vid_path)

    return videos_with_missing_pose_files


def get_corresponding_pose_path(video_path: Path, keep_video_suffixes: bool = False) -> Path:
    """
    Given a video path, and whether to keep the suffix, returns the expected corresponding path with .pose extension.

    Parameters
    ----------
    video_path : Path
        Path to a video file
    keep_video_suffixes : bool, optional
        Whether to keep suffix (e.g. foo.mp4 -> foo.mp4.pose)
        or replace (foo.mp4->foo.pose). Defaults to replace.

    Returns
    -------
    Path
        pathlib Path
    """
    if keep_video_suffixes:
        return video_path.with_name(f"{video_path.name}.pose")
    return video_path.with_suffix(".pose")


def process_video(keep_video_suffixes: bool, pose_format: str, additional_config: dict, vid_path: Path) -> bool:
    cpu_num = psutil.cpu_num() if hasattr(psutil, "cpu_num") else (
        os.sched_getcpu()) if hasattr(os, 'sched_getcpu') else "N/A"
    print(f'Estimating {vid_path} on CPU {cpu_num}')

    try:
        pose_path = get_corresponding_pose_path(video_path=vid_path, keep_video_suffixes=keep_video_suffixes)
        if pose_path.is_file():
            print(f"Skipping {vid_path}, corresponding .pose file already created.")
        else:
            # pose_video function expects string, and passes it unchanged to cv2.VideoCapture(input_path)
            # if you give cv2.VideoCapture(input_path) a Path it crashes on older versions.
            # https://github.com/opencv/opencv/issues/15731
            pose_video(str(vid_path.resolve()), str(pose_path.resolve()), pose_format, additional_config, progress=False)
            return True
            
    except ValueError as e:
        print(f"ValueError on {vid_path}")
        logging.exception(e)
        

def main():
    parser = argparse.ArgumentParser()
    parser.add_argument(
        "-f",
        "--format",
        choices=["mediapipe"],
        default="mediapipe",
        type=str,
        help="type of pose estimation to use",
    )
    parser.add_argument(
        "-d",
        "--directory",
        type=Path,
        required=True,
        help="Directory to search for videos in",
    )
    parser.add_argument(
        "-r",
        "--recursive",
        action="store_true",
        help="Whether to search for videos recursively",
    )
    parser.add_argument(
        "--keep-video-suffixes",
        action="store_true",
        help="Whether to drop the video extension (output for foo.mp4 becomes foo.pose, and foo.webm ALSO becomes foo.pose) or append to it (foo.mp4 becomes foo.mp4.pose, foo.webm output is foo.webm.pose). If there are multiple videos with the same basename but different extensions, this will create a .pose file for each. Otherwise only the first video will be posed.",
    )
    parser.add_argument(
        "--video-suffixes",
        type=str,
        choices=SUPPORTED_VIDEO_FORMATS,
        default=SUPPORTED_VIDEO_FORMATS,
        help="Video extensions to search for. Defaults to searching for all supported.",
    )
    parser.add_argument(
        "--num-workers", 
        type=int, 
        default=1, 
        help="Number of multiprocessing workers.", 
        required=False
    )
    parser.add_argument(
        "--additional-config",
        type=str,
        help="additional configuration for the pose estimator",
    )
    args = parser.parse_args()

    videos_with_missing_pose_files = find_videos_with_missing_pose_files(
        args.directory,
        video_suffixes=args.video_suffixes,
        recursive=args.recursive,
        keep_video_suffixes=args.keep_video_suffixes,
    )

    print(f"Found {len(videos_with_missing_pose_files)} videos missing pose files.")

    pose_files_that_will_be_created = {get_corresponding_pose_path(vid_path, args.keep_video_suffixes) for vid_path in videos_with_missing_pose_files}

    if len(pose_files_that_will_be_created) < len(videos_with_missing_pose_files):
        continue_input = input(
            f"With current naming strategy (without --keep-video-suffixes), name collisions will result in only {len(pose_files_that_will_be_created)} .pose files being created. Continue? [y/n]"
        )
        if continue_input.lower() != "y":
            print(f"Exiting. To keep video suffixes and avoid collisions, use --keep-video-suffixes")
            exit()

    additional_config = parse_additional_config(args.additional_config)

    pose_with_no_errors_count = 0

    if args.num_workers == 1:
        print('Process sequentially ...')
    else:
        print(f'Multiprocessing with {args.num_workers} workers on {len(os.sched_getaffinity(0))} available CPUs ...')

    func = partial(process_video, args.keep_video_suffixes, args.format, additional_config)
    for success in process_map(func, videos_with_missing_pose_files, max_workers=args.num_workers):
        if success:
            pose_with_no_errors_count += 1

    print(f"Successfully created pose files for {pose_with_no_errors_count}/{len(videos_with_missing_pose_files)} video files")
