#!/usr/bin/env python

import argparse
import os

from pose_format.pose import Pose
from pose_format.pose_visualizer import PoseVisualizer
from pose_format.utils.generic import pose_normalization_info

from pose_format.utils.generic import normalize_pose_size


def visualize_pose(pose_path: str, video_path: str, normalize=False):
    with open(pose_path, "rb") as f:
        pose = Pose.read(f.read())

    if normalize:
        pose = pose.normalize(pose_normalization_info(pose.header))
        normalize_pose_size(pose)

    v = PoseVisualizer(pose)

    v.save_video(video_path, v.draw())


def main():
    parser = argparse.ArgumentParser()
    parser.add_argument('-i', required=True, type=str, help='path to input pose file')
    parser.add_argument('-o', required=True, type=str, help='path to output video file')
    parser.add_argument('--normalize', action='store_true', help='Normalize pose before visualization')

    args = parser.parse_args()

    if not os.path.exists(args.i):
        raise FileNotFoundError(f"Pose file {args.i} not found")

    visualize_pose(args.i, args.o, args.normalize)
