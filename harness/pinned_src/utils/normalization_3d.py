from typing import Tuple

import numpy as np
import numpy.ma as ma
from scipy.spatial.transform import Rotation

from pose_format.pose_header import PoseNormalizationInfo


class PoseNormalizer:
    """
    Class to normalize pose using normalization information.
    
    :param plane: Plane normalization information
    :type plane: PoseNormalizationInfo
    :param line: Line normalization information
    :type line: PoseNormalizationInfo
    :param size: The desired size after normalization, defaults to 1
    :type size: float
    """

    def __init__(self, plane: PoseNormalizationInfo, line: PoseNormalizationInfo, size: float = 1):

        self.size = size
        self.plane = plane
        self.line = line

    def rotate_to_normal(self, pose: ma.masked_array, normal: ma.masked_array, around: ma.masked_array):
        """
        Rotate pose so that its normal vector aligns with z-axis.

        Parameters
        ----------
        pose : ma.masked_array
            Original pose data
        normal : ma.masked_array
            Normal vector with respect to which the pose will be aligned.
        around : ma.masked_array
            Points to rotate around

        Returns
        -------
        ma.masked_array
            The rotated pose
        
        Raises
        ------
        ValueError:
            if the shapes of pose, normal, and around aren't compatible.

        Examples
        --------
        >>> pose = ma.masked_array([[1, 1], [2, 2], [3, 3]])
        >>> normal = ma.masked_array([0, 0, 1])
        >>> around = ma.masked_array([1, 1])
        >>> rotated_pose = normalizer.rotate_to_normal(pose, normal, around)
        """
        # Move pose to origin
        pose = pose - around[:, np.newaxis]

        old_x_axis = np.array([1, 0, 0])

        z_axis = normal
        y_axis = np.cross(old_x_axis, z_axis, axis=-1)
        x_axis = np.cross(z_axis, y_axis, axis=-1)

        axis = np.stack([x_axis, y_axis, z_axis], axis=1)

        rotated = np.einsum('...ij,...kj->...ik', pose, axis)
        return ma.masked_array(rotated, pose.mask)

    def get_normal(self, pose: ma.masked_array) -> Tuple[ma.masked_array, ma.masked_array]:
        """
        Get normal vector based on pose "plane"

        Parameters
        ----------
        pose : ma.masked_array
            Pose data.

        Returns
        -------
        normal : ma.masked_array
            Normal vector for pose.
        base : ma.masked_array
            Base point -> triangle[:,0] used to compute normal
        
        Note
        ----
        Important that plane attributes (p1, p2, p3) are correctly initialized for normal to be correctly computed
        """
        triangle = pose[:, [self.plane.p1, self.plane.p2, self.plane.p3]]

        v1 = triangle[:, 1] - triangle[:, 0]
        v2 = triangle[:, 2] - triangle[:, 0]

        normal = np.cross(v1, v2, axisa=-1)
        normal /= np.linalg.norm(normal, axis=-1, keepdims=True)

        normal = ma.masked_array(normal, pose[:, 0].mask)
        return normal, triangle[:, 0]

    def get_rotation_angle(self, pose: ma.masked_array) -> ma.masked_array:
        """
        Gets rotation angle required to rotate pose such that the line is on the Y axis.

        Parameters
        ----------
        pose : ma.masked_array
            Pose data

        Returns
        -------
        ma.masked_array
            Angles (degrees) needed for each pose in the array
        """
        p1 = pose[:, self.line.p1]
        p2 = pose[:, self.line.p2]
        vec = p2 - p1

        return 90 + np.degrees(np.arctan2(vec[..., 1], vec[..., 0]))

    def rotate(self, pose: ma.masked_array, angle: np.ndarray) -> ma.masked_array:
        """
        Rotate pose in the X-Y plane by a custom angle (np.ndarray).

        Parameters
        ----------
        pose : ma.masked_array
            Original pose data
        angle : np.ndarray
            Angles to rotate poses, in degrees.

        Returns
        -------
        ma.masked_array
            rotated pose
        """
        r = Rotation.from_euler('z', -angle[..., np.newaxis], degrees=True)  # Clockwise rotation
        rotated = np.einsum('...ij,...kj->...ik', pose, r.as_matrix()).reshape(pose.shape)
        return ma.masked_array(rotated, pose.mask)

    def scale(self, pose: ma.masked_array) -> ma.masked_array:
        """
        Scaling of pose

        Parameters
        ----------
        pose : ma.masked_array
            pose to scale

        Returns
        -------
        ma.masked_array
            scaled pose
        """
        p1 = pose[:, self.line.p1]
        p2 = pose[:, self.line.p2]
        current_size = ma.sqrt(ma.power(p2 - p1, 2).sum(axis=-1))
        scale = self.size / current_size
        pose *= scale.reshape(-1, 1, 1)
        pose -= pose[:, [self.line.p1]]  # move to first point of the line
        return pose

    def normalize_pose(self, pose: ma.masked_array) -> ma.masked_array:
        """
        Fully normalizes the pose - rotates to match normals, then rotates in the 
        X-Y plane, and finally scales.

        Parameters
        ----------
        pose : ma.masked_array
            original pose data

        Returns
        -------
        ma.masked_array
            fully normalized pose
        """
        # First rotate to normal
        normal, base = self.get_normal(pose)
        pose = self.rotate_to_normal(pose, normal, base)

        # Then rotate on the X-Y plane such that the line is on the Y axis
        angle = self.get_rotation_angle(pose)
        pose = self.rotate(pose, angle)

        # Scale pose such that the line is of size self.size
        pose = self.scale(pose)

        # Filled with zeros
        pose = ma.array(pose.filled(0), mask=pose.mask)

        return pose

    def __call__(self, poses: ma.masked_array) -> ma.masked_array:
        """
        Normalization to a batch of poses. 

        TReshapes the input to combine frames and people dimensions, 
        applies pose normalization, then reshapes back to the original structure.

        Parameters
        ----------
        poses : ma.masked_array
            4D masked array with dimensions [frames, people, joints, dims] 
            representing a batch of poses needed to be normalized.

        Returns
        -------
        ma.masked_array
            4D masked array with dimensions [frames, people, joints, dims] 
            containing normalized poses.

        """
        frames, people, joints, dims = poses.shape
        poses = poses.reshape(-1, joints, dims)
        poses = self.normalize_pose(poses)
        return poses.reshape(frames, people, joints, dims)
