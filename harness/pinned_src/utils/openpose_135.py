from pose_format.pose import Pose
from pose_format.pose_header import (PoseHeader, PoseHeaderComponent,
                                     PoseHeaderDimensions)
from pose_format.utils.openpose import limbs_index, load_openpose_directory

BODY_POINTS = [
    "Nose", "LEye", "REye", "LEar", "REar", "LShoulder", "RShoulder", "LElbow", "RElbow", "LWrist", "RWrist", "LHip",
    "RHip", "LKnee", "RKnee", "LAnkle", "RAnkle", "UpperNeck", "HeadTop", "LBigToe", "LSmallToe", "LHeel", "RBigToe",
    "RSmallToe", "RHeel"
]
LEFT_HAND_POINTS = [
    "LThumb1CMC", "LThumb2Knuckles", "LThumb3IP", "LThumb4FingerTip", "LIndex1Knuckles", "LIndex2PIP", "LIndex3DIP",
    "LIndex4FingerTip", "LMiddle1Knuckles", "LMiddle2PIP", "LMiddle3DIP", "LMiddle4FingerTip", "LRing1Knuckles",
    "LRing2PIP", "LRing3DIP", "LRing4FingerTip", "LPinky1Knuckles", "LPinky2PIP", "LPinky3DIP", "LPinky4FingerTip"
]
RIGHT_HAND_POINTS = [
    "RThumb1CMC", "RThumb2Knuckles", "RThumb3IP", "RThumb4FingerTip", "RIndex1Knuckles", "RIndex2PIP", "RIndex3DIP",
    "RIndex4FingerTip", "RMiddle1Knuckles", "RMiddle2PIP", "RMiddle3DIP", "RMiddle4FingerTip", "RRing1Knuckles",
    "RRing2PIP", "RRing3DIP", "RRing4FingerTip", "RPinky1Knuckles", "RPinky2PIP", "RPinky3DIP", "RPinky4FingerTip"
]
FACE_POINTS = [
    "FaceContour0", "FaceContour1", "FaceContour2", "FaceContour3", "FaceContour4", "FaceContour5", "FaceContour6",
    "FaceContour7", "FaceContour8", "FaceContour9", "FaceContour10", "FaceContour11", "FaceContour12", "FaceContour13",
    "FaceContour14", "FaceContour15", "FaceContour16", "REyeBrow0", "REyeBrow1", "REyeBrow2", "REyeBrow3", "REyeBrow4",
    "LEyeBrow4", "LEyeBrow3", "LEyeBrow2", "LEyeBrow1", "LEyeBrow0", "NoseUpper0", "NoseUpper1", "NoseUpper2",
    "NoseUpper3", "NoseLower0", "NoseLower1", "NoseLower2", "NoseLower3", "NoseLower4", "REye0", "REye1", "REye2",
    "REye3", "REye4", "REye5", "LEye0", "LEye1", "LEye2", "LEye3", "LEye4", "LEye5", "OMouth0", "OMouth1", "OMouth2",
    "OMouth3", "OMouth4", "OMouth5", "OMouth6", "OMouth7", "OMouth8", "OMouth9", "OMouth10", "OMouth11", "IMouth0",
    "IMouth1", "IMouth2", "IMouth3", "IMouth4", "IMouth5", "IMouth6", "IMouth7", "RPupil", "LPupil"
]

BODY_135_POINTS = BODY_POINTS + LEFT_HAND_POINTS + RIGHT_HAND_POINTS + FACE_POINTS

BODY_LIMBS = [('RShoulder', 'LShoulder'), ('RShoulder', 'RElbow'), ('RElbow', 'RWrist'), ('LShoulder', 'LElbow'),
              ('LElbow', 'LWrist'), ('Nose', 'LEye'), ('Nose', 'REye'), ('Nose', 'LEar'), ('Nose', 'REar'),
              ('RHip', 'LHip'), ('RHip', 'RShoulder'), ('LHip', 'LShoulder'), ('RHip', 'RKnee'), ('RKnee', 'RAnkle'),
              ('LHip', 'LKnee'), ('LKnee', 'LAnkle'), ('RAnkle', 'RHeel'), ('RAnkle', 'RBigToe'),
              ('RBigToe', 'RSmallToe'), ('LAnkle', 'LHeel'), ('LAnkle', 'LBigToe'), ('LBigToe', 'LSmallToe')]

ABSTRACT_HAND_LIMBS = [
    ("LWrist", "LThumb1CMC"),
    ("LWrist", "LIndex1Knuckles"),
    ("LWrist", "LMiddle1Knuckles"),
    ("LWrist", "LRing1Knuckles"),
    ("LWrist", "LPinky1Knuckles"),  # Base
    ("LThumb1CMC", "LThumb2Knuckles"),
    ("LThumb2Knuckles", "LThumb3IP"),
    ("LThumb3IP", "LThumb4FingerTip"),  # Thumb
    ("LIndex1Knuckles", "LIndex2PIP"),
    ("LIndex2PIP", "LIndex3DIP"),
    ("LIndex3DIP", "LIndex4FingerTip"),  # Index
    ("LMiddle1Knuckles", "LMiddle2PIP"),
    ("LMiddle2PIP", "LMiddle3DIP"),
    ("LMiddle3DIP", "LMiddle4FingerTip"),  # Middle
    ("LRing1Knuckles", "LRing2PIP"),
    ("LRing2PIP", "LRing3DIP"),
    ("LRing3DIP", "LRing4FingerTip"),  # Ring
    ("LPinky1Knuckles", "LPinky2PIP"),
    ("LPinky2PIP", "LPinky3DIP"),
    ("LPinky3DIP", "LPinky4FingerTip"),  # Pinky
]

HAND_LIMBS = [(hand + l1[1:], hand + l2[1:]) for l1, l2 in ABSTRACT_HAND_LIMBS for hand in ["L", "R"]]

FACE_LIMBS = [('FaceContour8', 'FaceContour7'), ('FaceContour7', 'FaceContour6'), ('FaceContour6', 'FaceContour5'),
              ('FaceContour5', 'FaceContour4'), ('FaceContour4', 'FaceContour3'), ('FaceContour3', 'FaceContour2'),
              ('FaceContour2', 'FaceContour1'), ('FaceContour1', 'FaceContour0'), ('FaceContour8', 'FaceContour9'),
              ('FaceContour9', 'FaceContour10'), ('FaceContour10', 'FaceContour11'), ('FaceContour11', 'FaceContour12'),
              ('FaceContour12', 'FaceContour13'), ('FaceContour13', 'FaceContour14'),
              ('FaceContour14', 'FaceContour15'), ('FaceContour15', 'FaceContour16'), ('OMouth0', 'OMouth1'),
              ('OMouth1', 'OMouth2'), ('OMouth2', 'OMouth3'), ('OMouth3', 'OMouth4'), ('OMouth4', 'OMouth5'),
              ('OMouth5', 'OMouth6'), ('OMouth6', 'OMouth7'), ('OMouth7', 'OMouth8'), ('OMouth8', 'OMouth9'),
              ('OMouth9', 'OMouth10'), ('OMouth10', 'OMouth11'), ('OMouth11', 'OMouth0'), ('IMouth0', 'IMouth1'),
              ('IMouth1', 'IMouth2'), ('IMouth2', 'IMouth3'), ('IMouth3', 'IMouth4'), ('IMouth4', 'IMouth5'),
              ('IMouth5', 'IMouth6'), ('IMouth6', 'IMouth7'), ('IMouth7', 'IMouth0'), ('NoseUpper0', 'NoseUpper1'),
              ('NoseUpper1', 'NoseUpper2'), ('NoseUpper2', 'NoseUpper3'), ('NoseUpper3', 'NoseLower0'),
              ('NoseLower0', 'NoseLower1'), ('NoseLower1', 'NoseLower2'), ('NoseLower2', 'NoseLower3'),
              ('NoseLower3', 'NoseLower4'), ('NoseUpper3', 'NoseLower2'), ('REyeBrow0', 'REyeBrow1'),
              ('REyeBrow1', 'REyeBrow2'), ('REyeBrow2', 'REyeBrow3'), ('REyeBrow3', 'REyeBrow4'),
              ('LEyeBrow4', 'LEyeBrow3'), ('LEyeBrow3', 'LEyeBrow2'), ('LEyeBrow2', 'LEyeBrow1'),
              ('LEyeBrow1', 'LEyeBrow0'), ('REye0', 'REye1'), ('REye1', 'REye2'), ('REye2', 'REye3'),
              ('REye3', 'REye4'), ('REye4', 'REye5'), ('REye5', 'REye0'), ('LEye0', 'LEye1'), ('LEye1', 'LEye2'),
              ('LEye2', 'LEye3'), ('LEye3', 'LEye4'), ('LEye4', 'LEye5'), ('LEye5', 'LEye0')]

BODY_135_LIMBS = BODY_LIMBS + HAND_LIMBS + FACE_LIMBS

OpenPose_Components = [
    PoseHeaderComponent(name="BODY_135",
                        points=BODY_135_POINTS,
                        limbs=limbs_index(BODY_135_LIMBS, BODY_135_POINTS),
                        colors=[(255, 0, 0)],
                        point_format="XYC")
]


def load_openpose_135_directory(*args, **kwargs) -> Pose:
    """
    Loads OpnePose data from a directory and returns a Pose object.

    The function reads Openpose data and modifies body data and confidence to contain only first 135 components.
    It then updates header components to OpenPose components.

    Parameters
    ----------
    *args : 
        Variable length argument list.
    **kwargs :
        arbitrary keyword arguments.

    Returns
    -------
    Pose
        modified Pose object with body data and confidence from the first 135 components

    Note
    ----
    The function assumes that the input directory contains "OpenPose data" compatible with the Pose data structure, 
    and body data and confidence matrices must have at least 135 components, no less! 
    """
    pose = load_openpose_directory(*args, **kwargs)

    pose.body.data = pose.body.data[:, :, :135, :]
    pose.body.confidence = pose.body.confidence[:, :, :135]
    pose.header.components = OpenPose_Components

    return pose


if __name__ == "__main__":
    dimensions = PoseHeaderDimensions(width=512, height=512, depth=0)
    header = PoseHeader(version=0.2, dimensions=dimensions, components=OpenPose_Components)

    with open(
            "/home/nlp/amit/sign-language/sign-language-datasets/sign_language_datasets/datasets/autsl/openpose_135.poseheader",
            "wb") as f:
        header.write(f)
