from typing import List

import numpy as np

from pose_format.pose import Pose, PoseHeader
from pose_format.numpy import NumPyPoseBody
from pose_format.pose_header import PoseHeaderComponent
from pose_format.pose_visualizer import PoseVisualizer
from pose_format.utils.holistic import HAND_POINTS as HOLISTIC_HAND_POINTS
from pose_format.utils.holistic import holistic_components
from pose_format.utils.openpose import HAND_POINTS as OPENPOSE_HAND_POINTS

LEFT_HAND_MAP = [(("hand_left_keypoints_2d", k1), ("LEFT_HAND_LANDMARKS", k2))
                 for k1, k2 in zip(OPENPOSE_HAND_POINTS, HOLISTIC_HAND_POINTS)]
RIGHT_HAND_MAP = [(("hand_right_keypoints_2d", k1), ("RIGHT_HAND_LANDMARKS", k2))
                  for k1, k2 in zip(OPENPOSE_HAND_POINTS, HOLISTIC_HAND_POINTS)]
BODY_MAP = [
    {("pose_keypoints_2d", "Nose"), ("POSE_LANDMARKS", "NOSE")},
    {("pose_keypoints_2d", "Neck"), ("POSE_LANDMARKS", ("RIGHT_SHOULDER", "LEFT_SHOULDER"))},
    {("pose_keypoints_2d", "RShoulder"), ("POSE_LANDMARKS", "RIGHT_SHOULDER")},
    {("pose_keypoints_2d", "RElbow"), ("POSE_LANDMARKS", "RIGHT_ELBOW")},
    {("pose_keypoints_2d", "RWrist"), ("POSE_LANDMARKS", "RIGHT_WRIST")},
    {("pose_keypoints_2d", "LShoulder"), ("POSE_LANDMARKS", "LEFT_SHOULDER")},
    {("pose_keypoints_2d", "LElbow"), ("POSE_LANDMARKS", "LEFT_ELBOW")},
    {("pose_keypoints_2d", "LWrist"), ("POSE_LANDMARKS", "LEFT_WRIST")},
    {("pose_keypoints_2d", "MidHip"), ("POSE_LANDMARKS", ("RIGHT_HIP", "LEFT_HIP"))},
    {("pose_keypoints_2d", "RHip"), ("POSE_LANDMARKS", "RIGHT_HIP")},
    {("pose_keypoints_2d", "RKnee"), ("POSE_LANDMARKS", "RIGHT_KNEE")},
    {("pose_keypoints_2d", "RAnkle"), ("POSE_LANDMARKS", "RIGHT_ANKLE")},
    {("pose_keypoints_2d", "LHip"), ("POSE_LANDMARKS", "LEFT_HIP")},
    {("pose_keypoints_2d", "LKnee"), ("POSE_LANDMARKS", "LEFT_KNEE")},
    {("pose_keypoints_2d", "LAnkle"), ("POSE_LANDMARKS", "LEFT_ANKLE")},
    {("pose_keypoints_2d", "REye"), ("POSE_LANDMARKS", "RIGHT_EYE")},
    {("pose_keypoints_2d", "LEye"), ("POSE_LANDMARKS", "LEFT_EYE")},
    {("pose_keypoints_2d", "REar"), ("POSE_LANDMARKS", "RIGHT_EAR")},
    {("pose_keypoints_2d", "LEar"), ("POSE_LANDMARKS", "LEFT_EAR")},
    {("pose_keypoints_2d", "LHeel"), ("POSE_LANDMARKS", "LEFT_HEEL")},
    {("pose_keypoints_2d", "RHeel"), ("POSE_LANDMARKS", "RIGHT_HEEL")},
]

FACE_MAP = [
    # face border mappings and interpolations:
    (("face_keypoints_2d", "FB_0"), ("FACE_LANDMARKS", "127")),
    (("face_keypoints_2d", "FB_1"), ("FACE_LANDMARKS", "234")),
    (("face_keypoints_2d", "FB_2"), ("FACE_LANDMARKS", "93")),
    (("face_keypoints_2d", "FB_3"), ("FACE_LANDMARKS", "132")),
    (("face_keypoints_2d", "FB_4"), ("FACE_LANDMARKS", "58")),
    (("face_keypoints_2d", "FB_5"), ("FACE_LANDMARKS", "172")),
    (("face_keypoints_2d", "FB_6"), ("FACE_LANDMARKS", "136")),
    (("face_keypoints_2d", "FB_7"), ("FACE_LANDMARKS", "149")),
    (("face_keypoints_2d", "FB_8"), ("FACE_LANDMARKS", "152")),
    (("face_keypoints_2d", "FB_9"), ("FACE_LANDMARKS", "378")),
    (("face_keypoints_2d", "FB_10"), ("FACE_LANDMARKS", "365")),
    (("face_keypoints_2d", "FB_11"), ("FACE_LANDMARKS", "397")),
    (("face_keypoints_2d", "FB_12"), ("FACE_LANDMARKS", "288")),
    (("face_keypoints_2d", "FB_13"), ("FACE_LANDMARKS", "361")),
    (("face_keypoints_2d", "FB_14"), ("FACE_LANDMARKS", "323")),
    (("face_keypoints_2d", "FB_15"), ("FACE_LANDMARKS", "454")),
    (("face_keypoints_2d", "FB_16"), ("FACE_LANDMARKS", "356")),
    {("face_keypoints_2d", ("FB_6", "FB_7")), ("FACE_LANDMARKS", "150")},
    {("face_keypoints_2d", ("FB_7", "FB_8")), ("FACE_LANDMARKS", "176")},
    {("face_keypoints_2d", ("FB_7", "FB_8")), ("FACE_LANDMARKS", "148")},
    {("face_keypoints_2d", ("FB_8", "FB_9")), ("FACE_LANDMARKS", "377")},
    {("face_keypoints_2d", ("FB_8", "FB_8")), ("FACE_LANDMARKS", "400")},
    {("face_keypoints_2d", ("FB_9", "FB_10")), ("FACE_LANDMARKS", "379")},

    # Right eye mappings and interpolations:
    (("face_keypoints_2d", "FE_42"), ("FACE_LANDMARKS", "362")),
    (("face_keypoints_2d", "FE_43"), ("FACE_LANDMARKS", "385")),
    (("face_keypoints_2d", "FE_44"), ("FACE_LANDMARKS", "387")),
    (("face_keypoints_2d", "FE_45"), ("FACE_LANDMARKS", "263")),
    (("face_keypoints_2d", "FE_46"), ("FACE_LANDMARKS", "373")),
    (("face_keypoints_2d", "FE_47"), ("FACE_LANDMARKS", "380")),
    {("face_keypoints_2d", ("FE_42", "FE_43")), ("FACE_LANDMARKS", "398")},
    {("face_keypoints_2d", ("FE_42", "FE_43")), ("FACE_LANDMARKS", "384")},
    {("face_keypoints_2d", ("FE_43", "FE_44")), ("FACE_LANDMARKS", "386")},
    {("face_keypoints_2d", ("FE_44", "FE_45")), ("FACE_LANDMARKS", "388")},
    {("face_keypoints_2d", ("FE_44", "FE_45")), ("FACE_LANDMARKS", "466")},
    {("face_keypoints_2d", ("FE_45", "FE_46")), ("FACE_LANDMARKS", "249")},
    {("face_keypoints_2d", ("FE_45", "FE_46")), ("FACE_LANDMARKS", "390")},
    {("face_keypoints_2d", ("FE_46", "FE_47")), ("FACE_LANDMARKS", "374")},
    {("face_keypoints_2d", ("FE_47", "FE_42")), ("FACE_LANDMARKS", "381")},
    {("face_keypoints_2d", ("FE_47", "FE_42")), ("FACE_LANDMARKS", "382")},

    # Left eye mappings and interpolations:
    (("face_keypoints_2d", "FE_36"), ("FACE_LANDMARKS", "33")),
    (("face_keypoints_2d", "FE_37"), ("FACE_LANDMARKS", "160")),
    (("face_keypoints_2d", "FE_38"), ("FACE_LANDMARKS", "158")),
    (("face_keypoints_2d", "FE_39"), ("FACE_LANDMARKS", "133")),
    (("face_keypoints_2d", "FE_40"), ("FACE_LANDMARKS", "153")),
    (("face_keypoints_2d", "FE_41"), ("FACE_LANDMARKS", "144")),
    {("face_keypoints_2d", ("FE_36", "FE_37")), ("FACE_LANDMARKS", "246")},
    {("face_keypoints_2d", ("FE_36", "FE_37")), ("FACE_LANDMARKS", "161")},
    {("face_keypoints_2d", ("FE_37", "FE_38")), ("FACE_LANDMARKS", "159")},
    {("face_keypoints_2d", ("FE_38", "FE_39")), ("FACE_LANDMARKS", "157")},
    {("face_keypoints_2d", ("FE_38", "FE_39")), ("FACE_LANDMARKS", "173")},
    {("face_keypoints_2d", ("FE_39", "FE_40")), ("FACE_LANDMARKS", "155")},
    {("face_keypoints_2d", ("FE_39", "FE_40")), ("FACE_LANDMARKS", "154")},
    {("face_keypoints_2d", ("FE_40", "FE_41")), ("FACE_LANDMARKS", "145")},
    {("face_keypoints_2d", ("FE_41", "FE_36")), ("FACE_LANDMARKS", "163")},
    {("face_keypoints_2d", ("FE_41", "FE_36")), ("FACE_LANDMARKS", "7")},

    # Nose mappings and interpolations:
    (("face_keypoints_2d", "FN_27"), ("FACE_LANDMARKS", "168")),
    (("face_keypoints_2d", "FN_28"), ("FACE_LANDMARKS", "197")),
    (("face_keypoints_2d", "FN_29"), ("FACE_LANDMARKS", "5")),
    (("face_keypoints_2d", "FN_30"), ("FACE_LANDMARKS", "4")),
    {("face_keypoints_2d", ("FN_27", "FN_28")), ("FACE_LANDMARKS", "6")},
    {("face_keypoints_2d", ("FN_28", "FN_29")), ("FACE_LANDMARKS", "195")},

    (("face_keypoints_2d", "FN_31"), ("FACE_LANDMARKS", "219")),
    (("face_keypoints_2d", "FN_32"), ("FACE_LANDMARKS", "237")),
    (("face_keypoints_2d", "FN_33"), ("FACE_LANDMARKS", "1")),
    (("face_keypoints_2d", "FN_34"), ("FACE_LANDMARKS", "457")),
    (("face_keypoints_2d", "FN_35"), ("FACE_LANDMARKS", "439")),
    {("face_keypoints_2d", ("FN_31", "FN_32")), ("FACE_LANDMARKS", "218")},
    {("face_keypoints_2d", ("FN_32", "FN_33")), ("FACE_LANDMARKS", "44")},
    {("face_keypoints_2d", ("FN_33", "FN_34")), ("FACE_LANDMARKS", "274")},
    {("face_keypoints_2d", ("FN_34", "FN_35")), ("FACE_LANDMARKS", "438")},

    # Mouth mappings and interpolations:
    (("face_keypoints_2d", "FLO_48"), ("FACE_LANDMARKS", "61")),
    (("face_keypoints_2d", "FLO_49"), ("FACE_LANDMARKS", "40")),
    (("face_keypoints_2d", "FLO_50"), ("FACE_LANDMARKS", "37")),
    (("face_keypoints_2d", "FLO_51"), ("FACE_LANDMARKS", "0")),
    (("face_keypoints_2d", "FLO_52"), ("FACE_LANDMARKS", "267")),
    (("face_keypoints_2d", "FLO_53"), ("FACE_LANDMARKS", "270")),
    (("face_keypoints_2d", "FLO_54"), ("FACE_LANDMARKS", "291")),
    (("face_keypoints_2d", "FLO_55"), ("FACE_LANDMARKS", "321")),
    (("face_keypoints_2d", "FLO_56"), ("FACE_LANDMARKS", "314")),
    (("face_keypoints_2d", "FLO_57"), ("FACE_LANDMARKS", "17")),
    (("face_keypoints_2d", "FLO_58"), ("FACE_LANDMARKS", "84")),
    (("face_keypoints_2d", "FLO_59"), ("FACE_LANDMARKS", "91")),
    {("face_keypoints_2d", ("FLO_48", "FLO_49")), ("FACE_LANDMARKS", "185")},
    {("face_keypoints_2d", ("FLO_49", "FLO_50")), ("FACE_LANDMARKS", "39")},
    {("face_keypoints_2d", ("FLO_52", "FLO_53")), ("FACE_LANDMARKS", "269")},
    {("face_keypoints_2d", ("FLO_53", "FLO_54")), ("FACE_LANDMARKS", "409")},
    {("face_keypoints_2d", ("FLO_54", "FLO_55")), ("FACE_LANDMARKS", "375")},
    {("face_keypoints_2d", ("FLO_55", "FLO_56")), ("FACE_LANDMARKS", "405")},
    {("face_keypoints_2d", ("FLO_58", "FLO_59")), ("FACE_LANDMARKS", "181")},
    {("face_keypoints_2d", ("FLO_59", "FLO_48")), ("FACE_LANDMARKS", "146")},

    # Inner mouth mappings and interpolations:
    (("face_keypoints_2d", "FLI_60"), ("FACE_LANDMARKS", "78")),
    (("face_keypoints_2d", "FLI_61"), ("FACE_LANDMARKS", "81")),
    (("face_keypoints_2d", "FLI_62"), ("FACE_LANDMARKS", "13")),
    (("face_keypoints_2d", "FLI_63"), ("FACE_LANDMARKS", "311")),
    (("face_keypoints_2d", "FLI_64"), ("FACE_LANDMARKS", "308")),
    (("face_keypoints_2d", "FLI_65"), ("FACE_LANDMARKS", "402")),
    (("face_keypoints_2d", "FLI_66"), ("FACE_LANDMARKS", "14")),
    (("face_keypoints_2d", "FLI_67"), ("FACE_LANDMARKS", "178")),
    {("face_keypoints_2d", ("FLI_60", "FLI_61")), ("FACE_LANDMARKS", "191")},
    {("face_keypoints_2d", ("FLI_60", "FLI_61")), ("FACE_LANDMARKS", "80")},
    {("face_keypoints_2d", ("FLI_61", "FLI_62")), ("FACE_LANDMARKS", "82")},
    {("face_keypoints_2d", ("FLI_62", "FLI_63")), ("FACE_LANDMARKS", "312")},
    {("face_keypoints_2d", ("FLI_63", "FLI_64")), ("FACE_LANDMARKS", "310")},
    {("face_keypoints_2d", ("FLI_63", "FLI_64")), ("FACE_LANDMARKS", "415")},
    {("face_keypoints_2d", ("FLI_64", "FLI_65")), ("FACE_LANDMARKS", "318")},
    {("face_keypoints_2d", ("FLI_64", "FLI_65")), ("FACE_LANDMARKS", "324")},
    {("face_keypoints_2d", ("FLI_65", "FLI_66")), ("FACE_LANDMARKS", "317")},
    {("face_keypoints_2d", ("FLI_66", "FLI_67")), ("FACE_LANDMARKS", "87")},
    {("face_keypoints_2d", ("FLI_67", "FLI_60")), ("FACE_LANDMARKS", "88")},
    {("face_keypoints_2d", ("FLI_67", "FLI_60")), ("FACE_LANDMARKS", "95")},

    # FEB
    (("face_keypoints_2d", "FEB_17"), ("FACE_LANDMARKS", "70")),
    (("face_keypoints_2d", "FEB_18"), ("FACE_LANDMARKS", "63")),
    (("face_keypoints_2d", "FEB_19"), ("FACE_LANDMARKS", "105")),
    (("face_keypoints_2d", "FEB_20"), ("FACE_LANDMARKS", "66")),
    (("face_keypoints_2d", "FEB_21"), ("FACE_LANDMARKS", "107")),
    (("face_keypoints_2d", "FEB_22"), ("FACE_LANDMARKS", "336")),
    (("face_keypoints_2d", "FEB_23"), ("FACE_LANDMARKS", "296")),
    (("face_keypoints_2d", "FEB_24"), ("FACE_LANDMARKS", "334")),
    (("face_keypoints_2d", "FEB_25"), ("FACE_LANDMARKS", "293")),
    (("face_keypoints_2d", "FEB_26"), ("FACE_LANDMARKS", "300")),
]

POSES_MAP = BODY_MAP + LEFT_HAND_MAP + RIGHT_HAND_MAP + FACE_MAP


def convert_pose(pose: Pose, pose_components: List[PoseHeaderComponent]) -> Pose:
    """
    converts the given pose to a new pose instance based on given pose components.

    Parameters
    ----------
    pose : Pose
        The initial pose object to convert
    pose_components : List[PoseHeaderComponent]
        the new set of pose components to define the pose structure

    Returns
    -------
    Pose
        Converted pose object
    """
    pose_header = PoseHeader(version=pose.header.version, dimensions=pose.header.dimensions, components=pose_components)

    base_shape = (pose.body.data.shape[0], pose.body.data.shape[1], pose_header.total_points())
    data = np.zeros(shape=(*base_shape, len(pose_components[0].format) - 1), dtype=np.float32)
    conf = np.zeros(shape=base_shape, dtype=np.float32)

    original_components = set([c.name for c in pose.header.components])
    new_components = set([c.name for c in pose_components])

    # Create a mapping
    mapping = {}
    for points in POSES_MAP:
        original_point = None
        new_point = None
        for component, point in points:
            if component in original_components:
                original_point = (component, point)

            if component in new_components and isinstance(point, str):
                new_point = (component, point)

        if original_point is not None and new_point is not None:
            mapping[new_point] = original_point

    dims = min(len(pose_header.components[0].format), len(pose.header.components[0].format)) - 1
    for (c1, p1), (c2, p2) in mapping.items():
        p2 = tuple([p2]) if isinstance(p2, str) else p2
        try:
            p2s = [pose.header.get_point_index(c2, p) for p in list(p2)]
            p1_index = pose_header.get_point_index(c1, p1)
            data[:, :, p1_index, :dims] = pose.body.data[:, :, p2s, :dims].mean(axis=2)
            conf[:, :, p1_index] = pose.body.confidence[:, :, p2s].mean(axis=2)
        except Exception as e:
            print(f"Error in mapping {c1} {p1} to {c2} {p2}: {e}")

    pose_body = NumPyPoseBody(fps=pose.body.fps, data=data, confidence=conf)

    return Pose(pose_header, pose_body)

def save_image(pose: Pose, name: str):
    """
    Saves visualized pose as an image with a given name

    Parameters
    ----------
    pose : Pose
        Pose to be visualized and saved
    name : str
        Name to save image to.
    """
    visualizer = PoseVisualizer(pose, thickness=1)
    frame = next(iter(visualizer.draw(background_color=(255, 255, 255))))
    visualizer.save_frame(name, frame)


if __name__ == "__main__":
    with open("sample-data/video/sample.pose", "rb") as f:
        original_pose = Pose.read(f.read(), NumPyPoseBody)
        original_pose.focus()

    conv_holistic = convert_pose(original_pose, holistic_components())
    conv_openpose1 = convert_pose(original_pose, original_pose.header.components)
    conv_openpose2 = convert_pose(conv_holistic, original_pose.header.components)

    save_image(original_pose, "original.png")
    save_image(conv_holistic, "conv_holistic.png")
    save_image(conv_openpose1, "conv_openpose1.png")
    save_image(conv_openpose2, "conv_openpose2.png")
