import json
import math
import os
import re
from typing import Any, Dict, List, Optional, Tuple

import numpy as np
from numpy import ma

from ..numpy.pose_body import NumPyPoseBody
from ..pose import Pose
from ..pose_header import PoseHeader, PoseHeaderComponent, PoseHeaderDimensions

BODY_POINTS = [
    "Nose", "Neck", "RShoulder", "RElbow", "RWrist", "LShoulder", "LElbow", "LWrist", "MidHip", "RHip", "RKnee",
    "RAnkle", "LHip", "LKnee", "LAnkle", "REye", "LEye", "REar", "LEar", "LBigToe", "LSmallToe", "LHeel", "RBigToe",
    "RSmallToe", "RHeel"
]

# Based on https://github.com/CMU-Perceptual-Computing-Lab/openpose/raw/master/.github/media/keypoints_pose_25.png
# Everything sprouts out of the neck
BODY_LIMBS = [
    # Body
    ("Neck", "RShoulder"),
    ("RShoulder", "RElbow"),
    ("RElbow", "RWrist"),
    ("Neck", "LShoulder"),
    ("LShoulder", "LElbow"),
    ("LElbow", "LWrist"),
    ("Neck", "MidHip"),
    # Face
    ("Nose", "LEye"),
    ("Nose", "REye"),
    ("Nose", "LEar"),
    ("Nose", "REar"),
    ("Neck", "Nose"),
    # Legs
    ("MidHip", "RHip"),
    ("RHip", "RKnee"),
    ("RKnee", "RAnkle"),
    ("MidHip", "LHip"),
    ("LHip", "LKnee"),
    ("LKnee", "LAnkle"),
    # Feet
    ("RAnkle", "RHeel"),
    ("RAnkle", "RBigToe"),
    ("RBigToe", "RSmallToe"),
    ("LAnkle", "LHeel"),
    ("LAnkle", "LBigToe"),
    ("LBigToe", "LSmallToe"),
]

#        8   12  16  20
#        |   |   |   |
#        7   11  15  19
#    4   |   |   |   |
#    |   6   10  14  18
#    3   |   |   |   |
#    |   5---9---13--17
#    2    \         /
#     \    \       /
#      1    \     /
#       \    \   /
#        ------0-

# Anatomy guide https://www.assh.org/handcare/blog/anatomy-101-finger-joints
HAND_POINTS = [
    "BASE",
    "T_STT",
    "T_BCMC",
    "T_MCP",
    "T_IP",  # Thumb
    "I_CMC",
    "I_MCP",
    "I_PIP",
    "I_DIP",  # Index
    "M_CMC",
    "M_MCP",
    "M_PIP",
    "M_DIP",  # Middle
    "R_CMC",
    "R_MCP",
    "R_PIP",
    "R_DIP",  # Ring
    "P_CMC",
    "P_MCP",
    "P_PIP",
    "P_DIP",  # Pinky
]

# Based on https://github.com/CMU-Perceptual-Computing-Lab/openpose/raw/master/.github/media/keypoints_hand.png
# Everything sprouts out of the base
HAND_LIMBS = [
    ("BASE", "T_STT"),
    ("BASE", "I_CMC"),
    ("BASE", "M_CMC"),
    ("BASE", "R_CMC"),
    ("BASE", "P_CMC"),  # Base
    ("T_STT", "T_BCMC"),
    ("T_BCMC", "T_MCP"),
    ("T_MCP", "T_IP"),  # Thumb
    ("I_CMC", "I_MCP"),
    ("I_MCP", "I_PIP"),
    ("I_PIP", "I_DIP"),  # Index
    ("M_CMC", "M_MCP"),
    ("M_MCP", "M_PIP"),
    ("M_PIP", "M_DIP"),  # Middle
    ("R_CMC", "R_MCP"),
    ("R_MCP", "R_PIP"),
    ("R_PIP", "R_DIP"),  # Ring
    ("P_CMC", "P_MCP"),
    ("P_MCP", "P_PIP"),
    ("P_PIP", "P_DIP"),  # Pinky
]

# Based on https://github.com/CMU-Perceptual-Computing-Lab/openpose/raw/master/.github/media/keypoints_face.png
# Border
FACE_BORDER_POINTS = ["FB_" + str(i) for i in range(17)]
FACE_BORDER_LIMBS_LEFT = [("FB_" + str(i), "FB_" + str(i - 1)) for i in reversed(range(1, 9))]
FACE_BORDER_LIMBS_RIGHT = [("FB_" + str(i), "FB_" + str(i + 1)) for i in range(8, 16)]

# Lips
FACE_OUTER_LIPS_POINTS = ["FLO_" + str(i) for i in range(48, 60)]
FACE_OUTER_LIPS_LIMBS = [("FLO_" + str(i), "FLO_" + str(i + 1)) for i in range(48, 59)] + [("FLO_59", "FLO_48")]
FACE_INNER_LIPS_POINTS = ["FLI_" + str(i) for i in range(60, 68)]
FACE_INNER_LIPS_LIMBS = [("FLI_" + str(i), "FLI_" + str(i + 1)) for i in range(60, 67)] + [("FLI_67", "FLI_60")]

# Nose
FACE_NOSE_POINTS = ["FN_" + str(i) for i in range(27, 36)]
FACE_NOSE_BRIDGE_LIMBS = [("FN_" + str(i), "FN_" + str(i + 1)) for i in range(27, 31)]
FACE_NOSE_HORIZONTAL_LIMBS = [("FN_" + str(i), "FN_" + str(i + 1)) for i in range(31, 35)]
FACE_NOSE_LIMBS = FACE_NOSE_BRIDGE_LIMBS + FACE_NOSE_HORIZONTAL_LIMBS + [("FN_30", "FN_33")]

# Eyebrows
FACE_EYE_POINTS = ["FE_" + str(i) for i in range(36, 48)]
FACE_EYE_LEFT_LIMBS = [("FE_" + str(i), "FE_" + str(i + 1)) for i in range(36, 41)] + [("FE_41", "FE_36")]
FACE_EYE_RIGHT_LIMBS = [("FE_" + str(i), "FE_" + str(i + 1)) for i in range(42, 47)] + [("FE_47", "FE_42")]
FACE_PUPILS_POINTS = ["FP_68", "FP_69"]

# Eyes
FACE_EYEBROWS_POINTS = ["FEB_" + str(i) for i in range(17, 27)]
FACE_EYEBROW_LEFT_LIMBS = [("FEB_" + str(i), "FEB_" + str(i + 1)) for i in range(17, 21)]
FACE_EYEBROW_RIGHT_LIMBS = [("FEB_" + str(i), "FEB_" + str(i + 1)) for i in range(22, 26)]

# Face points, in order
FACE_POINTS = FACE_BORDER_POINTS + FACE_EYEBROWS_POINTS + FACE_NOSE_POINTS + FACE_EYE_POINTS + FACE_OUTER_LIPS_POINTS + FACE_INNER_LIPS_POINTS + FACE_PUPILS_POINTS
FACE_LIMBS: List[Tuple[str, str]] = FACE_BORDER_LIMBS_LEFT + FACE_BORDER_LIMBS_RIGHT + FACE_OUTER_LIPS_LIMBS + \
                                    FACE_INNER_LIPS_LIMBS + FACE_NOSE_LIMBS + FACE_EYEBROW_LEFT_LIMBS + \
                                    FACE_EYEBROW_RIGHT_LIMBS + FACE_EYE_LEFT_LIMBS + FACE_EYE_RIGHT_LIMBS

HAND_POINTS_COLOR = [[192, 0, 0], [0, 0, 192], [0, 192, 0], [0, 192, 192], [192, 127, 0], [127, 127, 127]]

OPENPOSE_FRAME_PATTERN = "(?:^|\D)(\d+)\\_keypoints.json"


# Definition of OpenPose Components


def limbs_index(limbs: List[Tuple[str, str]], points: List[str]) -> List[Tuple[int, int]]:
    """
    Convert limb names to indices based on a list of points.
    
    Parameters
    ----------
    limbs : list of tuple of str
        limbs defined by point names
    points : list of str (List[str])
        list of point names
    
    Returns
    -------
    list of tuple of int
        List of limbs defined by point indices
    """
    return [(points.index(p1), points.index(p2)) for p1, p2 in limbs]


hand_colors = [
    tuple([math.floor(x + 35 * (i % 4)) for x in HAND_POINTS_COLOR[i // 4]])
    for i in range(-1, len(HAND_POINTS) - 1)
]
# Override pinky, for accessibility
hand_colors[17] = hand_colors[20] = (255, 128, 0)
hand_colors[19] = (255, 153, 51)
hand_colors[18] = (255, 178, 102)

OpenPose_Hand_Component = lambda name: PoseHeaderComponent(
    name=name, points=HAND_POINTS, limbs=limbs_index(HAND_LIMBS, HAND_POINTS), colors=hand_colors, point_format="XYC")
OpenPose_Hand_Component.__doc__ = """
This "lambda" function creates a PoseHeaderComponent using 'name' and
a constants for points, limbs, colors, and format.
"""

#     {
#     "points": HAND_POINTS,
#     "colors": [[math.floor(x + 35 * (i % 4)) for x in HAND_POINTS_COLOR[i // 4]] for i in
#                range(-1, len(HAND_POINTS) - 1)],
#     "limbs": HAND_LIMBS,
#     "point_format": {"X": 0, "Y": 1, "C": 2}
# }

OpenPose_Components = [
    PoseHeaderComponent(name="pose_keypoints_2d",
                        points=BODY_POINTS,
                        limbs=limbs_index(BODY_LIMBS, BODY_POINTS),
                        colors=[(255, 0, 0)],
                        point_format="XYC"),
    PoseHeaderComponent(name="face_keypoints_2d",
                        points=FACE_POINTS,
                        limbs=limbs_index(FACE_LIMBS, FACE_POINTS),
                        colors=[(128, 0, 0)],
                        point_format="XYC"),
    OpenPose_Hand_Component("hand_left_keypoints_2d"),
    OpenPose_Hand_Component("hand_right_keypoints_2d"),
]

OpenPoseFrame = Dict[str, Any]
OpenPoseFrames = Dict[int, OpenPoseFrame]


def load_openpose(frames: OpenPoseFrames,
                  fps: float = 24,
                  width: int = 1000,
                  height: int = 1000,
                  depth: int = 0,
                  num_frames: Optional[int] = None) -> Pose:
    """
    Loads a dictionary of OpenPose frames into a Pose object.
    
    Parameters
    ----------
    frames : dict
        Dictionary where keys are frame IDs, and values are individual frames. Each individual frame is also a dictionary.
    fps : float, optional
        Framerate, default is 24.
    width : int, optional
        Width of pose space, default is 1000.
    height : int, optional
        Height of pose space, default is 1000.
    depth : int, optional
        Depth of pose space, default is 0.
    num_frames : int, optional
        Number of frames when it's known and cannot be derived from OpenPose files. That is the case if the last frame(s) of a video are missing from the OpenPose output.
        Default is None.

    Returns
    -------
    Pose
        Pose object with a header specific to OpenPose and a body that contains a single array.
    """
    dimensions = PoseHeaderDimensions(width=width, height=height, depth=depth)

    header: PoseHeader = PoseHeader(version=0.2, dimensions=dimensions, components=OpenPose_Components)

    total_points = header.total_points()

    if num_frames is None:
        # take the maximum of all frame IDs because some frames could be missing
        num_frames = max(frames.keys()) + 1

    # array dimensions: (frames, person, points, dimensions)
    people = max([len(frame["people"]) for frame in frames.values()])
    data = np.zeros(shape=(num_frames, people, total_points, 2), dtype=np.float32)
    confidence = np.zeros(shape=(num_frames, people, total_points), dtype=np.float32)

    for frame_id, frame in frames.items():
        for person_id, person in enumerate(frame["people"]):
            keypoint_id = 0
            for component in header.components:
                numbers = person[component.name]
                for k in range(0, len(numbers), len(component.format)):
                    data[frame_id, person_id, keypoint_id, 0] = numbers[k + 0]
                    data[frame_id, person_id, keypoint_id, 1] = numbers[k + 1]
                    confidence[frame_id, person_id, keypoint_id] = numbers[k + 2]
                    keypoint_id += 1

    # Mask data
    mask = confidence == 0  # 0 means no-mask, 1 means with-mask
    stacked_confidence = np.stack([mask, mask], axis=3)
    masked_data = ma.masked_array(data, mask=stacked_confidence)

    body = NumPyPoseBody(fps=fps, data=masked_data, confidence=confidence)

    return Pose(header, body)


def get_frame_id(filename: str, pattern: str) -> int:
    """
    Parses a filename to find the ID of a frame. Example file name for frame with ID 17: `CAM2_000000000017_keypoints.json`.

    Parameters
    ----------
    filename : str
        Name of the openpose frame file.
    pattern : str, optional
        Regex pattern to extract frame ID, default is OPENPOSE_FRAME_PATTERN.

    Returns
    -------
    int
        Frame ID as an integer.
    """
    m = re.findall(pattern, filename)
    frame_id = int(m[-1])

    return frame_id


def load_frames_directory_dict(directory: str, pattern: str) -> OpenPoseFrames:
    """
    Load a pose directory where each frame's pose data is stored in a separate file 
    following a specific naming scheme. 
    Filenames must adhere to the format: `[ARBITRARY CHARACTERS]_[FRAME_ID]_keypoints.json`.
    Example: For a frame with ID 17, the filename would be `CAM2_000000000017_keypoints.json`.

    Parameters
    ----------
    directory : str
        Path to the folder containing pose files.
    pattern : str, optional
        Regular expression pattern to identify and parse frame filenames. The default pattern expects 
        filenames of the form `[ARBITRARY CHARACTERS]_[FRAME_ID]_keypoints.json`.

    Returns
    -------
    OpenPoseFrames
        Dictionary where keys are frame IDs (int) and values are the corresponding frames (dict).

    Examples
    --------
    >>> frames = load_frames_directory_dict("path/to/frames")
    >>> print(frames[17])
    {...}  # content of CAM2_000000000017_keypoints.json
    """
    frames = {}  # type: OpenPoseFrames

    with os.scandir(directory) as entry_iterator:
        for entry in entry_iterator:  # type: os.DirEntry
            with open(entry.path, "r") as f:
                frame_id = get_frame_id(entry.name, pattern=pattern)
                frame_dict = json.load(f)
                frames[frame_id] = frame_dict

    return frames


def load_openpose_directory(directory: str,
                            fps: float = 24,
                            width: int = 1000,
                            height: int = 1000,
                            depth: int = 0,
                            num_frames: Optional[int] = None) -> Pose:
    """
    Loads pose data from a directory containing OpenPose files and return a `Pose` object.

    Parameters
    ----------
    directory : str
        Path to the folder that contains pose files.
    fps : float, optional
        Framerate. Default is 24.
    width : int, optional
        Width of pose space. Default 1000.
    height : int, optional
        Height of pose space, default; 1000.
    depth : int, optional
        Depth of pose space, default; 0.
    num_frames : int, optional
        Number of frames when known and cannot be derived from OpenPose files. 
        This can be the case if the last frame(s) of a video are missing from the OpenPose output.
        Default is None.

    Returns
    -------
    Pose
        Pose object with a header specific to OpenPose and a body containing a single array.

    Examples
    --------
    >>> pose = load_openpose_directory("path/to/frames")
    >>> print(pose.header)
    PoseHeader(...)
    """
    frames = load_frames_directory_dict(directory=directory, pattern=OPENPOSE_FRAME_PATTERN)

    return load_openpose(frames, fps=fps, width=width, height=height, depth=depth, num_frames=num_frames)
