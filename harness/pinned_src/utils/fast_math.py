def distance_batch(p1s, p2s):
    """
    Computes Euclidean distance between two sets of points in batch

    Parameters
    ----------
    p1s : array-like
        array of shape (N, D) where N; number of points & D ; dimensionality of each point
    p2s : array-like
        array of shape (N, D) with N; number of points & D; dimensionality of each point

    Returns
    -------
    array-like
        array of shape (N,) with euclidean distances between points in `p1s` and `p2s`

    Examples
    --------
    >>> distance_batch(np.array([[0, 0], [1, 1]]), np.array([[1, 1], [2, 2]]))
    array([1.41421356, 1.41421356])

    Note
    ----
    Function assumes that the inputs `p1s` and `p2s` have the same shape
    """
    squared = (p1s - p2s)**2
    summed = squared.sum(axis=-1)
    return summed**0.5
