class OpticalFlowCalculator:
    """
    Classe used for computing optical flow between frames using distance function
    
    Parameters
    ----------
    fps : float
        frames per second; used to normalize optical flow computation
    distance : callable
        function to compute distance (or optical flow) between two frames (post/pre-src)
    """

    def __init__(self, fps, distance):
        self.fps = fps
        self.distance = distance

    def __call__(self, src):
        """
        Calculate the optical flow norm between frames, normalized by fps
        
        Parameters
        ----------
        src : torch.Tensor
            source tensor representing the frames

        Returns
        -------
        torch.Tensor
            normalized optical flow values between consecutive frames (pre-/post-src)
        """

        pre_src = src[:-1]
        post_src = src[1:]

        # Calculate distance
        src = self.distance(post_src, pre_src)

        # Normalize distance by fps
        src = src * self.fps

        return src
