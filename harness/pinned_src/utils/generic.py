from typing import Tuple, Literal, List, Union
import copy
import numpy as np
import numpy.ma as ma
from pose_format.pose import Pose
from pose_format.numpy import NumPyPoseBody
from pose_format.pose_header import PoseHeader, PoseHeaderDimensions, PoseHeaderComponent, PoseNormalizationInfo
from pose_format.utils.normalization_3d import PoseNormalizer
from pose_format.utils.openpose import OpenPose_Components
from pose_format.utils.openpose import BODY_POINTS as OPENPOSE_BODY_POINTS
from pose_format.utils.openpose_135 import OpenPose_Components as OpenPose135_Components

# from pose_format.utils.holistic import holistic_components
# The import above creates an error: ImportError: Please install mediapipe with: pip install mediapipe

KnownPoseFormat = Literal["holistic", "openpose", "openpose_135"]


def get_component_names(
    pose_or_header_or_components: Union[Pose,PoseHeader]) -> List[str]:
    if isinstance(pose_or_header_or_components, Pose):
        return [c.name for c in pose_or_header_or_components.header.components]
    if isinstance(pose_or_header_or_components, PoseHeader):
        return [c.name for c in pose_or_header_or_components.components]
    raise ValueError(f"Could not get component_names from {pose_or_header_or_components}")


def detect_known_pose_format(pose_or_header: Union[Pose,PoseHeader]) -> KnownPoseFormat:
    component_names= get_component_names(pose_or_header)

    # would be better to import from pose_format.utils.holistic but that creates a dep on mediapipe
    mediapipe_components = [
        "POSE_LANDMARKS",
        "FACE_LANDMARKS",
        "LEFT_HAND_LANDMARKS",
        "RIGHT_HAND_LANDMARKS",
        "POSE_WORLD_LANDMARKS",
    ]

    openpose_components = [c.name for c in OpenPose_Components]

    openpose_135_components = [c.name for c in OpenPose135_Components]

    for component_name in component_names:
        if component_name in mediapipe_components:
            return "holistic"
        if component_name in openpose_components:
            return "openpose"
        if component_name in openpose_135_components:
            return "openpose_135"

    raise ValueError(
        f"Could not detect pose format, unknown pose header schema with component names: {component_names}"
    )


def normalize_pose_size(pose: Pose, target_width: int = 512):
    shift = 1.25
    shoulder_width = (target_width / shift) / 2
    shift_vec = np.full(shape=(pose.body.data.shape[-1]), fill_value=shift, dtype=np.float32)
    pose.body.data = (pose.body.data + shift_vec) * shoulder_width
    pose.header.dimensions.height = pose.header.dimensions.width = target_width


def pose_hide_legs(pose: Pose, remove: bool = False) -> Pose:
    """
    Hide or remove leg components from a pose.
    
    If `remove` is True, the leg components are removed; otherwise, they are hidden (zeroed out).
    """
    known_pose_format = detect_known_pose_format(pose)

    if known_pose_format == "holistic":
        point_names = ["KNEE", "ANKLE", "HEEL", "FOOT_INDEX", "HIP"]
        sides = ["LEFT", "RIGHT"]
        point_names_to_remove = [f"{side}_{name}" for side in sides for name in point_names]
        points_to_remove_dict = {
            "POSE_LANDMARKS": point_names_to_remove,
            "POSE_WORLD_LANDMARKS": point_names_to_remove,
        }

    elif known_pose_format == "openpose":
        words_to_look_for = ["Hip", "Knee", "Ankle", "BigToe", "SmallToe", "Heel"]
        point_names_to_remove = [point for point in OPENPOSE_BODY_POINTS
                                 if any(word in point for word in words_to_look_for)]

            # if any of the items in point_
        points_to_remove_dict = {"pose_keypoints_2d": point_names_to_remove}

    else:
        raise NotImplementedError(
            f"Unsupported pose header schema {known_pose_format} for {pose_hide_legs.__name__}: {pose.header}"
        )

    if remove:
        return pose.remove_components([], points_to_remove_dict)

    # Hide the points instead of removing them
    point_indices = []
    for component, points in points_to_remove_dict.items():
        for point_name in points:
            try:
                point_index = pose.header.get_point_index(component, point_name)
                point_indices.append(point_index)
            except ValueError: # point not found, maybe removed earlier in other preprocessing steps
                pass


    pose.body.data[:, :, point_indices, :] = 0
    pose.body.confidence[:, :, point_indices] = 0

    return pose


def pose_shoulders(pose_header: PoseHeader) -> Tuple[Tuple[str, str], Tuple[str, str]]:
    known_pose_format = detect_known_pose_format(pose_header)

    if known_pose_format == "holistic":
        return ("POSE_LANDMARKS", "RIGHT_SHOULDER"), ("POSE_LANDMARKS", "LEFT_SHOULDER")

    if known_pose_format == "openpose_135":
        return ("BODY_135", "RShoulder"), ("BODY_135", "LShoulder")

    if known_pose_format == "openpose":
        return ("pose_keypoints_2d", "RShoulder"), ("pose_keypoints_2d", "LShoulder")

    raise NotImplementedError(
        f"Unsupported pose header schema {known_pose_format} for {pose_shoulders.__name__}: {pose_header}"
    )


def hands_indexes(pose_header: PoseHeader)-> List[int]:
    known_pose_format = detect_known_pose_format(pose_header)
    if known_pose_format == "holistic":
        return [
            pose_header.get_point_index("LEFT_HAND_LANDMARKS", "MIDDLE_FINGER_MCP"),
            pose_header.get_point_index("RIGHT_HAND_LANDMARKS", "MIDDLE_FINGER_MCP"),
        ]

    if known_pose_format == "openpose":
        return [
            pose_header.get_point_index("hand_left_keypoints_2d", "M_CMC"),
            pose_header.get_point_index("hand_right_keypoints_2d", "M_CMC"),
        ]
    raise NotImplementedError(
        f"Unsupported pose header schema {known_pose_format} for {hands_indexes.__name__}: {pose_header}"
    )


def pose_normalization_info(pose_header: PoseHeader) ->PoseNormalizationInfo:
    (c1, p1), (c2, p2) = pose_shoulders(pose_header)
    return pose_header.normalization_info(p1=(c1, p1), p2=(c2, p2))


def hands_components(pose_header: PoseHeader)-> Tuple[Tuple[str, str], Tuple[str, str, str], Tuple[str, str]]:
    known_pose_format = detect_known_pose_format(pose_header)
    if known_pose_format == "holistic":
        return (
            ("LEFT_HAND_LANDMARKS", "RIGHT_HAND_LANDMARKS"),
            ("WRIST", "PINKY_MCP", "INDEX_FINGER_MCP"),
            ("WRIST", "MIDDLE_FINGER_MCP"),
        )

    if known_pose_format == "openpose":
        return ("hand_left_keypoints_2d", "hand_right_keypoints_2d"), ("BASE", "P_CMC", "I_CMC"), ("BASE", "M_CMC")

    raise NotImplementedError(
        f"Unsupported pose header schema '{known_pose_format}' for {hands_components.__name__}: {pose_header}"
    )


def normalize_component_3d(pose, component_name: str, plane: Tuple[str, str, str], line: Tuple[str, str]):
    hand_pose = pose.get_components([component_name])
    plane_info = hand_pose.header.normalization_info(
        p1=(component_name, plane[0]),
        p2=(component_name, plane[1]),
        p3=(component_name, plane[2])
    )
    line_info = hand_pose.header.normalization_info(
        p1=(component_name, line[0]),
        p2=(component_name, line[1])
        )

    normalizer = PoseNormalizer(plane=plane_info, line=line_info)
    normalized_hand = normalizer(hand_pose.body.data)

    # Add normalized hand to pose
    pose.body.data = ma.concatenate([pose.body.data, normalized_hand], axis=2).astype(np.float32)
    pose.body.confidence = np.concatenate([pose.body.confidence, hand_pose.body.confidence], axis=2)


def normalize_hands_3d(pose: Pose, left_hand=True, right_hand=True):
    (left_hand_component, right_hand_component), plane, line = hands_components(pose.header)
    if left_hand:
        normalize_component_3d(pose, left_hand_component, plane, line)
    if right_hand:
        normalize_component_3d(pose, right_hand_component, plane, line)


def get_standard_components_for_known_format(known_pose_format: KnownPoseFormat) -> List[PoseHeaderComponent]:
    if known_pose_format == "holistic":
        try:
            # pylint: disable=import-outside-toplevel
            import pose_format.utils.holistic as holistic_utils
            return holistic_utils.holistic_components()
        except ImportError as e:
            raise e
    if known_pose_format == "openpose":
        return OpenPose_Components
    if known_pose_format == "openpose_135":
        return OpenPose135_Components

    raise NotImplementedError(f"Unsupported pose header schema {known_pose_format}")


def fake_pose(num_frames: int, fps: int=25, components: Union[List[PoseHeaderComponent],None]=None)->Pose:
    if components is None:
        components = copy.deepcopy(OpenPose_Components) # fixes W0102, dangerous default value

    if components[0].format == "XYZC":
        dimensions = PoseHeaderDimensions(width=1, height=1, depth=1)
    elif components[0].format == "XYC":
        dimensions = PoseHeaderDimensions(width=1, height=1)
    else:
        raise ValueError(f"Unknown point format: {components[0].format}")
    header = PoseHeader(version=0.2, dimensions=dimensions, components=components)

    total_points = header.total_points()
    data = np.random.randn(num_frames, 1, total_points, header.num_dims())
    confidence = np.random.randn(num_frames, 1, total_points)
    masked_data = ma.masked_array(data)

    body = NumPyPoseBody(fps=int(fps), data=masked_data, confidence=confidence)

    return Pose(header, body)


def get_hand_wrist_index(pose: Pose, hand: str)-> int:
    known_pose_format = detect_known_pose_format(pose)
    if known_pose_format == "holistic":
        return pose.header.get_point_index(f"{hand.upper()}_HAND_LANDMARKS", "WRIST")
    if known_pose_format == "openpose":
        return pose.header.get_point_index(f"hand_{hand.lower()}_keypoints_2d", "BASE")
    raise NotImplementedError(
        f"Unsupported pose header schema {known_pose_format} for {get_hand_wrist_index.__name__}: {pose.header}"
    )


def get_body_hand_wrist_index(pose: Pose, hand: str)-> int:
    known_pose_format = detect_known_pose_format(pose)
    if known_pose_format == "holistic":
        return pose.header.get_point_index("POSE_LANDMARKS", f"{hand.upper()}_WRIST")
    if known_pose_format == "openpose":
        return pose.header.get_point_index("pose_keypoints_2d", f"{hand.upper()[0]}Wrist")
    raise NotImplementedError(
        f"Unsupported pose header schema {known_pose_format} for {get_body_hand_wrist_index.__name__}: {pose.header}"
    )


def correct_wrist(pose: Pose, hand: str) -> Pose:
    pose = copy.deepcopy(pose) # was previously modifying the input
    wrist_index = get_hand_wrist_index(pose, hand)
    wrist = pose.body.data[:, :, wrist_index]
    wrist_conf = pose.body.confidence[:, :, wrist_index]

    body_wrist_index = get_body_hand_wrist_index(pose, hand)
    body_wrist = pose.body.data[:, :, body_wrist_index]
    body_wrist_conf = pose.body.confidence[:, :, body_wrist_index]

    point_coordinate_count = wrist.shape[-1]
    stacked_conf = np.stack([wrist_conf] * point_coordinate_count, axis=-1)
    new_wrist_data = ma.where(stacked_conf == 0, body_wrist, wrist)
    new_wrist_conf = ma.where(wrist_conf == 0, body_wrist_conf, wrist_conf)

    pose.body.data[:, :, body_wrist_index] = new_wrist_data
    pose.body.confidence[:, :, body_wrist_index] = new_wrist_conf
    return pose


def correct_wrists(pose: Pose) -> Pose:
    pose = correct_wrist(pose, "LEFT")
    pose = correct_wrist(pose, "RIGHT")
    return pose


def reduce_holistic(pose: Pose) -> Pose:
    known_pose_format = detect_known_pose_format(pose)
    if known_pose_format != "holistic":
        return pose
    # pylint: disable=pointless-string-statement
    """
    # from mediapipe.python.solutions.face_mesh_connections import FACEMESH_CONTOURS
    # points_set = set([p for p_tup in list(FACEMESH_CONTOURS) for p in p_tup])
    # face_contours = [str(p) for p in sorted(points_set)]
    # print(face_contours)
    """
    # To avoid installing mediapipe, we just hardcode the face contours given the above code
    face_contours = [
        '0', '7', '10', '13', '14', '17', '21', '33', '37', '39', '40', '46', '52', '53', '54', '55', '58', '61', '63',
        '65', '66', '67', '70', '78', '80', '81', '82', '84', '87', '88', '91', '93', '95', '103', '105', '107', '109',
        '127', '132', '133', '136', '144', '145', '146', '148', '149', '150', '152', '153', '154', '155', '157', '158',
        '159', '160', '161', '162', '163', '172', '173', '176', '178', '181', '185', '191', '234', '246', '249', '251',
        '263', '267', '269', '270', '276', '282', '283', '284', '285', '288', '291', '293', '295', '296', '297', '300',
        '308', '310', '311', '312', '314', '317', '318', '321', '323', '324', '332', '334', '336', '338', '356', '361',
        '362', '365', '373', '374', '375', '377', '378', '379', '380', '381', '382', '384', '385', '386', '387', '388',
        '389', '390', '397', '398', '400', '402', '405', '409', '415', '454', '466'
    ]

    ignore_names = [
        "EAR", "NOSE", "MOUTH", "EYE",  # Face
        "THUMB", "PINKY", "INDEX",  # Hands
        "KNEE", "ANKLE", "HEEL", "FOOT_INDEX"  # Feet
    ]

    body_component = [c for c in pose.header.components if c.name == "POSE_LANDMARKS"][0]
    body_no_face_no_hands = [p for p in body_component.points if all([i not in p for i in ignore_names])]

    components = [c.name for c in pose.header.components if c.name != "POSE_WORLD_LANDMARKS"]
    return pose.get_components(components, {"FACE_LANDMARKS": face_contours, "POSE_LANDMARKS": body_no_face_no_hands})
