import numpy as np
from tqdm import tqdm

from ..numpy.pose_body import NumPyPoseBody
from ..pose import Pose
from ..pose_header import PoseHeader, PoseHeaderComponent, PoseHeaderDimensions
from .openpose import hand_colors, load_frames_directory_dict

try:
    import mediapipe as mp
    from mediapipe.python.solutions.face_mesh_connections import FACEMESH_IRISES
except ImportError:
    raise ImportError("Please install mediapipe with: pip install mediapipe")

mp_holistic = mp.solutions.holistic

FACEMESH_CONTOURS_POINTS = [
    str(p) for p in sorted(set([p for p_tup in list(mp_holistic.FACEMESH_CONTOURS) for p in p_tup]))
]

BODY_POINTS = mp_holistic.PoseLandmark._member_names_
BODY_LIMBS = [(int(a), int(b)) for a, b in mp_holistic.POSE_CONNECTIONS]

HAND_POINTS = mp_holistic.HandLandmark._member_names_
HAND_LIMBS = [(int(a), int(b)) for a, b in mp_holistic.HAND_CONNECTIONS]

FACE_POINTS_NUM = lambda additional_points=0: additional_points + 468
FACE_POINTS_NUM.__doc__ = """
Gets total number of face points and additional points.

Parameters
----------
additional_points : int, optional
    number of additional points to be added. The defaults is 0.

Returns
-------
int
    total number of face points.
"""
FACE_POINTS = lambda additional_points=0: [str(i) for i in range(FACE_POINTS_NUM(additional_points))]
FACE_POINTS.__doc__ = """
Makes a list of string representations of face points indexes up to total face points number

Parameters
----------
additional_points : int, optional
    number of additional points to be considered. Defaults to 0

Returns
-------
list[str]
    List of strings of face point indices.
"""

FACE_LIMBS = [(int(a), int(b)) for a, b in mp_holistic.FACEMESH_TESSELATION]
FACE_IRISES = [(int(a), int(b)) for a, b in FACEMESH_IRISES]

FLIPPED_BODY_POINTS = [
    'NOSE',
    'RIGHT_EYE_INNER',
    'RIGHT_EYE',
    'RIGHT_EYE_OUTER',
    'LEFT_EYE_INNER',
    'LEFT_EYE',
    'LEFT_EYE_OUTER',
    'RIGHT_EAR',
    'LEFT_EAR',
    'MOUTH_RIGHT',
    'MOUTH_LEFT',
    'RIGHT_SHOULDER',
    'LEFT_SHOULDER',
    'RIGHT_ELBOW',
    'LEFT_ELBOW',
    'RIGHT_WRIST',
    'LEFT_WRIST',
    'RIGHT_PINKY',
    'LEFT_PINKY',
    'RIGHT_INDEX',
    'LEFT_INDEX',
    'RIGHT_THUMB',
    'LEFT_THUMB',
    'RIGHT_HIP',
    'LEFT_HIP',
    'RIGHT_KNEE',
    'LEFT_KNEE',
    'RIGHT_ANKLE',
    'LEFT_ANKLE',
    'RIGHT_HEEL',
    'LEFT_HEEL',
    'RIGHT_FOOT_INDEX',
    'LEFT_FOOT_INDEX',
]


def component_points(component, width: int, height: int, num: int):
    """
    Gets component points

    Parameters
    ----------
    component : object
        Component with landmarks
    width : int
        Width
    height : int
        Height
    num : int
        number of landmarks

    Returns
    -------
    tuple of np.array
        coordinates and confidence for each landmark
    """
    if component is not None:
        lm = component.landmark
        return np.array([[p.x * width, p.y * height, p.z] for p in lm]), np.ones(num)

    return np.zeros((num, 3)), np.zeros(num)


def body_points(component, width: int, height: int, num: int):
    """
    gets body points

    Parameters
    ----------
    component : object
        component containing landmarks
    width : int
        width
    height : int
        Height
    num : int
        number of landmarks

    Returns
    -------
    tuple of np.array
        coordinates and visibility for each landmark.
    """
    if component is not None:
        lm = component.landmark
        return np.array([[p.x * width, p.y * height, p.z] for p in lm]), np.array([p.visibility for p in lm])

    return np.zeros((num, 3)), np.zeros(num)


def process_holistic(frames: list,
                     fps: float,
                     w: int,
                     h: int,
                     kinect=None,
                     progress=False,
                     additional_face_points=0,
                     additional_holistic_config={}) -> NumPyPoseBody:
    """
    process frames using holistic model from mediapipe

    Parameters
    ----------
    frames : list
        List of frames to be processed
    fps : float
        Frames per second
    w : int
        Frame width
    h : int
        Frame height.
    kinect : object, optional
        Kinect depth data.
    progress : bool, optional
        If True, show the progress bar.
    additional_face_points : int, optional
        Additional face landmarks (points)
    additional_holistic_config : dict, optional
        Additional configurations for holistic model

    Returns
    -------
    NumPyPoseBody
        Processed pose data
    """
    if 'static_image_mode' not in additional_holistic_config:
        additional_holistic_config['static_image_mode'] = False
    holistic = mp_holistic.Holistic(**additional_holistic_config)

    try:
        datas = []
        confs = []

        for i, frame in enumerate(tqdm(frames, disable=not progress)):
            results = holistic.process(frame)

            body_data, body_confidence = body_points(results.pose_landmarks, w, h, 33)
            face_data, face_confidence = component_points(results.face_landmarks, w, h,
                                                          FACE_POINTS_NUM(additional_face_points))
            lh_data, lh_confidence = component_points(results.left_hand_landmarks, w, h, 21)
            rh_data, rh_confidence = component_points(results.right_hand_landmarks, w, h, 21)
            body_world_data, body_world_confidence = body_points(results.pose_world_landmarks, w, h, 33)

            data = np.concatenate([body_data, face_data, lh_data, rh_data, body_world_data])
            conf = np.concatenate([body_confidence, face_confidence, lh_confidence, rh_confidence, body_world_confidence])

            if kinect is not None:
                kinect_depth = []
                for x, y, z in np.array(data, dtype="int32"):
                    if 0 < x < w and 0 < y < h:
                        kinect_depth.append(kinect[i, y, x, 0])
                    else:
                        kinect_depth.append(0)

                kinect_vec = np.expand_dims(np.array(kinect_depth), axis=-1)
                data = np.concatenate([data, kinect_vec], axis=-1)

            datas.append(data)
            confs.append(conf)

        pose_body_data = np.expand_dims(np.stack(datas), axis=1)
        pose_body_conf = np.expand_dims(np.stack(confs), axis=1)

        return NumPyPoseBody(data=pose_body_data, confidence=pose_body_conf, fps=fps)
    finally:
        holistic.close()


def holistic_hand_component(name, pf="XYZC") -> PoseHeaderComponent:
    """
    Creates holistic hand component

    Parameters
    ----------
    name : str
        Component name
    pf : str, optional
        Point format

    Returns
    -------
    PoseHeaderComponent
        Hand component
    """
    return PoseHeaderComponent(name=name, points=HAND_POINTS, limbs=HAND_LIMBS, colors=hand_colors, point_format=pf)


def holistic_components(pf="XYZC", additional_face_points=0):
    """
    Creates list of holistic components

    Parameters
    ----------
    pf : str, optional
        Point format
    additional_face_points : int, optional
        Additional face points/landmarks

    Returns
    -------
    list of PoseHeaderComponent
        List of holistic components.
    """
    face_limbs = list(FACE_LIMBS)
    if additional_face_points > 0:
        face_limbs += FACE_IRISES

    return [
        PoseHeaderComponent(name="POSE_LANDMARKS",
                            points=BODY_POINTS,
                            limbs=BODY_LIMBS,
                            colors=[(255, 0, 0)],
                            point_format=pf),
        PoseHeaderComponent(name="FACE_LANDMARKS",
                            points=FACE_POINTS(additional_face_points),
                            limbs=face_limbs,
                            colors=[(128, 0, 0)],
                            point_format=pf),
        holistic_hand_component("LEFT_HAND_LANDMARKS", pf),
        holistic_hand_component("RIGHT_HAND_LANDMARKS", pf),
        PoseHeaderComponent(name="POSE_WORLD_LANDMARKS",
                            points=BODY_POINTS,
                            limbs=BODY_LIMBS,
                            colors=[(255, 0, 0)],
                            point_format=pf),
    ]


def load_holistic(frames: list,
                  fps: float = 24,
                  width=1000,
                  height=1000,
                  depth=0,
                  kinect=None,
                  progress=False,
                  additional_holistic_config={}) -> Pose:
    """
    Loads holistic pose data

    Parameters
    ----------
    frames : list
        List of frames.
    fps : float, optional
        Frames per second.
    width : int, optional
        Frame width.
    height : int, optional
        Frame height.
    depth : int, optional
        Depth data.
    kinect : object, optional
        Kinect depth data.
    progress : bool, optional
        If True, show the progress bar.
    additional_holistic_config : dict, optional
        Additional configurations for the holistic model.

    Returns
    -------
    Pose
        Loaded pose data with header and body 
    """
    pf = "XYZC" if kinect is None else "XYZKC"

    dimensions = PoseHeaderDimensions(width=width, height=height, depth=depth)

    refine_face_landmarks = 'refine_face_landmarks' in additional_holistic_config and additional_holistic_config[
        'refine_face_landmarks']
    additional_face_points = 10 if refine_face_landmarks else 0
    header: PoseHeader = PoseHeader(version=0.2,
                                    dimensions=dimensions,
                                    components=holistic_components(pf, additional_face_points))
    body: NumPyPoseBody = process_holistic(frames, fps, width, height, kinect, progress, additional_face_points,
                                           additional_holistic_config)

    return Pose(header, body)


def formatted_holistic_pose(width: int, height: int, additional_face_points: int = 0):
    """
    Formatted holistic pose

    Parameters
    ----------
    width : int
        Pose width.
    height : int
        Pose height.
    additional_face_points : int, optional
        Additional face points/landmarks.

    Returns
    -------
    object
        Formatted pose components
    """
    dimensions = PoseHeaderDimensions(width=width, height=height, depth=1000)
    header = PoseHeader(version=0.2,
                        dimensions=dimensions,
                        components=holistic_components("XYZC", additional_face_points))
    body = NumPyPoseBody(
        fps=0,  # to be overridden later
        data=np.zeros(shape=(1, 1, header.total_points(), 3)),
        confidence=np.zeros(shape=(1, 1, header.total_points())))
    pose = Pose(header, body)
    return pose.get_components(["POSE_LANDMARKS", "FACE_LANDMARKS", "LEFT_HAND_LANDMARKS", "RIGHT_HAND_LANDMARKS"],
                               {"FACE_LANDMARKS": FACEMESH_CONTOURS_POINTS})


def load_mediapipe_directory(directory: str, fps: int, width: int, height: int, num_face_points: int = 128) -> Pose:
    """
    Load pose data from a directory of MediaPipe

    Parameters
    ----------
    directory : str
        Directory path.
    fps : float
        Frames per second.
    width : int
        Frame width.
    height : int
        Frame height.
    num_face_points : int, optional
        Number of face landmarks. Ideally, we don't want to hard code the 128 for the face, since face points can be 128 (reduced with refinement) or 118 (reduced without refinement) or 478 (full with refinement) or 468 (full without refinement)

    Returns
    -------
    Pose
        Loaded pose data
    """

    frames = load_frames_directory_dict(directory=directory, pattern="(?:^|\D)?(\d+).*?.json")

    if len(frames) > 0:
        first_frame = frames[0]
        num_pose_points = first_frame["pose_landmarks"]["num_landmarks"]
        num_left_hand_points = first_frame["left_hand_landmarks"]["num_landmarks"]
        num_right_hand_points = first_frame["right_hand_landmarks"]["num_landmarks"]
        additional_face_points = 10 if (num_face_points == 478 or num_face_points == 128) else 0
    else:
        raise ValueError("No frames found in directory: {}".format(directory))

    def load_mediapipe_frame(frame):
        """
        Get landmarks data of face landmarks, pose landmarks, and left & right hand landmarks (body_data, face_data, lh_data, rh_data) and confidence values from a given frame.

    Parameters
    ----------
    frame : dict
        Dictionary containing face, pose, left hand, and right hand landmark data.

    Returns
    -------
    tuple of numpy.ndarray
        A tuple containing two arrays:
        The first array is the landmarks data including x, y, z coordinates. 
        The second array is the confidence scores for each landmark.
         """

        def load_landmarks(name, num_points: int):
            points = [[float(p) for p in r.split(",")] for r in frame[name]["landmarks"]]
            points = [(ps + [1.0])[:4] for ps in points]  # Add visibility to all points
            if len(points) == 0:
                points = [[0, 0, 0, 0] for _ in range(num_points)]
            return np.array([[x, y, z] for x, y, z, c in points]), np.array([c for x, y, z, c in points])

        face_data, face_confidence = load_landmarks("face_landmarks", num_face_points)
        body_data, body_confidence = load_landmarks("pose_landmarks", num_pose_points)
        lh_data, lh_confidence = load_landmarks("left_hand_landmarks", num_left_hand_points)
        rh_data, rh_confidence = load_landmarks("right_hand_landmarks", num_right_hand_points)
        data = np.concatenate([body_data, face_data, lh_data, rh_data])
        conf = np.concatenate([body_confidence, face_confidence, lh_confidence, rh_confidence])
        return data, conf

    def load_mediapipe_frames() -> NumPyPoseBody:
        """
        From a list of frames, load  pose data and confidance into a NumPyPoseBody
        
        Processes each frame from `frames` to extract the data and confidence values
        for pose landmarks, face landmarks, and left & right hand landmarks.

        Returns
        -------
        NumPyPoseBody
            PoseBody object with data and confidence for each frame.
        """
        max_frames = int(max(frames.keys())) + 1
        pose_body_data = np.zeros(shape=(max_frames, 1, num_left_hand_points + num_right_hand_points + num_pose_points +
                                         num_face_points, 3),
                                  dtype=float)
        pose_body_conf = np.zeros(shape=(max_frames, 1, num_left_hand_points + num_right_hand_points + num_pose_points +
                                         num_face_points),
                                  dtype=float)
        for frame_id, frame in frames.items():
            data, conf = load_mediapipe_frame(frame)
            pose_body_data[frame_id][0] = data
            pose_body_conf[frame_id][0] = conf
        return NumPyPoseBody(data=pose_body_data, confidence=pose_body_conf, fps=fps)

    pose = formatted_holistic_pose(width=width, height=height, additional_face_points=additional_face_points)

    pose.body = load_mediapipe_frames()

    return pose
