from collections import OrderedDict

import numpy as np
import torch
from torch import nn
from torch.utils.data import DataLoader, Dataset

from pose_format.pose import Pose


class SineLayer(nn.Module):
    """
    A sine activation layer as described in the SIREN paper.

    Parameters
    ----------
    in_features : int
        number of input features.
    out_features : int
        number of output features.
    bias : bool, optional
        If set to False, the layer will not learn an additive bias. Default is True.
    is_first : bool, optional
        If it's the first layer in the network. Default is False.
    omega_0 : float, optional
        hyperparameter. Default is 30.

    Attributes
    ----------
    omega_0 : float
        hyperparameter for controlling the sine function.
    is_first : bool
        Determines how weights are initialized.

    Note
    ----
    - See paper sec. 3.2, final paragraph, and supplement Sec. 1.5 for discussion of omega_0.
    - If `is_first=True`, omega_0 multiplies the activations before the nonlinearity.
    - If `is_first=False`, weights are divided by omega_0 to keep magnitude of activations constant.

  """

    def __init__(self, in_features, out_features, bias=True, is_first=False, omega_0=30):
        super().__init__()
        self.omega_0 = omega_0
        self.is_first = is_first

        self.in_features = in_features
        self.linear = nn.Linear(in_features, out_features, bias=bias)

        self.init_weights()

    def init_weights(self):
        """initializes weights"""
        with torch.no_grad():
            if self.is_first:
                self.linear.weight.uniform_(-1 / self.in_features, 1 / self.in_features)
            else:
                self.linear.weight.uniform_(-np.sqrt(6 / self.in_features) / self.omega_0,
                                            np.sqrt(6 / self.in_features) / self.omega_0)

    def forward(self, input):
        """
        forward pass through layer 
    
        Parameters
        ----------
        input : torch.Tensor
            input tensor to layer

        Returns
        -------
        torch.Tensor
            Sine "activated" output tensor
        """
        return torch.sin(self.omega_0 * self.linear(input))

    def forward_with_intermediate(self, input):
        """
        Forward pass with intermediate value, before sine act. For visualization of activation distributions

        Parameters
        ----------
        input : torch.Tensor
            Input tensor to layer

        Returns
        -------
        tuple
            Sine activated output tensor along with an intermediate tensor
        """
        # For visualization of activation distributions
        intermediate = self.omega_0 * self.linear(input)
        return torch.sin(intermediate), intermediate


class Siren(nn.Module):
    """
    SIREN network consisting of SineLayers.

    Parameters
    ----------
    in_features : int
        number of input features.
    hidden_features : int
        number of hidden features.
    hidden_layers : int
        number hidden layers.
    out_features : int
        number output features.
    outermost_linear : bool, optional
        If True, outermost layer is linear. Default- False.
    first_omega_0 : float, optional
        Omega_0 for the first layer. The default is 30
    hidden_omega_0 : float, optional
        Omega_0 for the hidden layers, default; 30

  """

    def __init__(self,
                 in_features,
                 hidden_features,
                 hidden_layers,
                 out_features,
                 outermost_linear=False,
                 first_omega_0=30,
                 hidden_omega_0=30.):
        super().__init__()

        self.net = []
        self.net.append(SineLayer(in_features, hidden_features, is_first=True, omega_0=first_omega_0))

        for i in range(hidden_layers):
            self.net.append(SineLayer(hidden_features, hidden_features, is_first=False, omega_0=hidden_omega_0))

        if outermost_linear:
            final_linear = nn.Linear(hidden_features, out_features)

            with torch.no_grad():
                final_linear.weight.uniform_(-np.sqrt(6 / hidden_features) / hidden_omega_0,
                                             np.sqrt(6 / hidden_features) / hidden_omega_0)

            self.net.append(final_linear)
        else:
            self.net.append(SineLayer(hidden_features, out_features, is_first=False, omega_0=hidden_omega_0))

        self.net = nn.Sequential(*self.net)

    def forward(self, coords):
        """
        Forward pass through network

        Parameters
        ----------
        coords : torch.Tensor
            Input coordinates

        Returns
        -------
        tuple
            output (network) and coordinates (input)
        """
        coords = coords.clone().detach().requires_grad_(True)  # allows to take derivative w.r.t. input
        output = self.net(coords)
        return output, coords

    def forward_with_activations(self, coords, retain_grad=False):
        """
        Returns not only model output, but also intermediate activations.
        Only used for visualizing activations later!
        """
        activations = OrderedDict()

        activation_count = 0
        x = coords.clone().detach().requires_grad_(True)
        activations['input'] = x
        for i, layer in enumerate(self.net):
            if isinstance(layer, SineLayer):
                x, intermed = layer.forward_with_intermediate(x)

                if retain_grad:
                    x.retain_grad()
                    intermed.retain_grad()

                activations['_'.join((str(layer.__class__), "%d" % activation_count))] = intermed
                activation_count += 1
            else:
                x = layer(x)

                if retain_grad:
                    x.retain_grad()

            activations['_'.join((str(layer.__class__), "%d" % activation_count))] = x
            activation_count += 1

        return activations


class PoseDataset(Dataset):
    """
    Dataset for pose

    Parameters
    ----------
    pose : Pose
        Pose object containing body data & confidence scores

    Note
    ----
    - Assumes pose data is provided in a specific format with body data & confidence scores.
    """

    def __init__(self, pose: Pose):
        super().__init__()

        self.points = torch.tensor([p.flatten() for p in np.array(pose.body.data)], dtype=torch.float32)
        self.confidence = torch.tensor([np.stack([c, c], axis=-1).flatten() for c in np.array(pose.body.confidence)],
                                       dtype=torch.float32)

        self.coords = PoseDataset.get_coords(time=len(self.points) / pose.body.fps, fps=pose.body.fps)

    @staticmethod
    def get_coords(time: float, fps: float):
        """
        Gets coordinates based on time and frames per second (fps)

        Parameters
        ----------
        time : float
            Time (duration)
        fps : float
            frames per second

        Returns
        -------
        torch.Tensor
            Tensor with coordinates
        """
        return torch.tensor([[i / fps] for i in range(int(fps * time))], dtype=torch.float32)

    def __len__(self):
        return 1

    def __getitem__(self, idx):
        if idx > 0:
            raise IndexError

        return self.coords, self.points, self.confidence


def masked_mse_loss(model_output: torch.FloatTensor, ground_truth: torch.FloatTensor, confidence: torch.FloatTensor):
    """
    For calculating masked mean squared error loss

    Parameters
    ----------
    model_output : torch.FloatTensor
      output of model
    ground_truth : torch.FloatTensor
      Ground truth values
    confidence : torch.FloatTensor
      Confidence scores for pose

    Returns
    -------
    torch.Tensor
      computed masked mse loss
    """
    sq_error = (model_output - ground_truth)**2
    return (sq_error * confidence).mean()


def get_pose_siren(pose: Pose,
                   hidden_features: int = 256,
                   hidden_layers: int = 4,
                   total_steps=5000,
                   learning_rate=1e-5,
                   batch_size=1,
                   steps_til_summary=None,
                   cuda: bool = True):
    """
    For training: returns a SIREN model for pose data

    Parameters
    ----------
    pose : Pose
      Pose object with body data & confidence
    hidden_features : int, optional
      hidden features. Default 256.
    hidden_layers : int, optional
      hidden layers, default  4.
    total_steps : int, optional
      total (training) steps, default; 5000.
    learning_rate : float, optional
      Learning rate (optimization) default; 1e-5.
    batch_size : int, optional
      batch size (training) default; 1.
    steps_til_summary : int, optional
      Steps until summary. If None, no summary is printed, default is None
    cuda : bool, optional
      If True, training on GPU, default is True

    Returns
    -------
    function
      prediction function with model output of trained SIREN model

    """
    dataset = PoseDataset(pose)
    data_loader = DataLoader(dataset, batch_size=batch_size, pin_memory=True, num_workers=0, shuffle=True)
    shape = pose.body.data.shape

    device = torch.device('cuda') if cuda else torch.device('cpu')

    siren = Siren(in_features=1,
                  out_features=shape[1] * shape[2] * shape[3],
                  hidden_features=hidden_features,
                  hidden_layers=hidden_layers,
                  outermost_linear=True).to(device)

    optimizer = torch.optim.Adam(lr=learning_rate, params=siren.parameters())

    model_input, ground_truth, confidence = next(iter(data_loader))
    model_input, ground_truth, confidence = model_input.to(device), ground_truth.to(device), confidence.to(device)

    for step in range(1, total_steps + 1):
        model_output, coords = siren(model_input)
        loss = masked_mse_loss(model_output, ground_truth, confidence)

        if steps_til_summary is not None and step % steps_til_summary == 0:
            print("Step %d, Total loss %0.6f" % (step, loss))

        optimizer.zero_grad()
        loss.backward()
        optimizer.step()

    def predict(coords: torch.Tensor):
        with torch.no_grad():
            if cuda:
                coords = coords.cuda()
            model_output, _ = siren(coords)

            return model_output.reshape((coords.shape[0], shape[1], shape[2], shape[3]))

    return predict
