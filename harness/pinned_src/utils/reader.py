import struct
from dataclasses import dataclass
from io import BytesIO
from typing import Tuple, Union

import numpy as np


@dataclass
class ConstStructs:
    """
    Class hold collection of predefined struct formats to reuse
    """
    float: struct.Struct = struct.Struct("<f")
    """
Struct format for floating-point number"""

    short: struct.Struct = struct.Struct("<h")
    """
Struct format for signed short integer,'<h' """

    ushort: struct.Struct = struct.Struct("<H")
    """
Struct format for unsigned short integer"""

    double_ushort: struct.Struct = struct.Struct("<HH")
    """
Struct format for two unsigned short integers"""

    triple_ushort: struct.Struct = struct.Struct("<HHH")
    """
Struct format for three unsigned short integers"""

    uint: struct.Struct = struct.Struct("<I")
    """
Struct format for unsigned integer"""




class BufferReader:
    """
    Class is used to read binary data from buffer
    
    Parameters
    ----------
        buffer: bytes
            buffer from which to read data
        read_offset: int
            current read offset in buffer
        read_skipped: int
            how many bytes were skipped during reading
    """

    def __init__(self, buffer: Union[bytearray, bytes]):
        self.buffer: bytearray = buffer
        self.total_bytes_read = len(buffer)
        self.read_offset = 0
        self.read_skipped = 0

    def expect_to_read(self, n: int):
        pass

    def bytes_left(self):
        """
        gives number of bytes left to read from buffer
        
        Returns
        -------
        int
            The number of bytes left to read.
        """
        return len(self.buffer) - self.read_offset + self.read_skipped

    def bytes_remaining(self):
        """
        gives number of bytes between the read position and the end of the data source
        """
        return self.bytes_left()

    def unpack_f(self, s_format: str):
        """
        unpacks data from buffer using given struct format
        
        Parameters
        ----------
        s_format : str
            The struct format to use for unpacking data.
        
        Returns
        -------
        Unpacked data as specified by the struct format.
        """
        if not hasattr(ConstStructs, s_format):
            le_format: str = "<" + s_format
            setattr(ConstStructs, s_format, struct.Struct(le_format))

        return self.unpack(getattr(ConstStructs, s_format))

    def unpack_numpy(self, s: struct.Struct, shape: Tuple):
        """
        unpacks data from buffer into a numpy array using struct format and shape
        
        Parameters
        ----------
        s : struct.Struct
            The struct format to use.
        shape : Tuple[int, ...]
            The shape of the NumPy array.
        
        Returns
        -------
        np.ndarray
            The unpacked NumPy array.
        """
        self.expect_to_read(s.size * int(np.prod(shape)))

        arr = np.ndarray(shape, s.format, self.buffer, self.read_offset - self.read_skipped).copy()
        self.advance(s, int(np.prod(shape)))
        return arr

    def unpack_torch(self, s: struct.Struct, shape: Tuple):
        """ unpacks data from buffer into a torch tensor using struct format and shape
        
        Parameters
        ----------
        s : struct.Struct
            The struct format to use.
        shape : Tuple[int, ...]
            The shape of the PyTorch tensor.
        
        Returns
        -------
        torch.Tensor
            The unpacked PyTorch tensor.
        """
        import torch

        arr = self.unpack_numpy(s, shape)
        return torch.from_numpy(arr)

    def unpack_tensorflow(self, s: struct.Struct, shape: Tuple):
        """
        Unpacks into a tensorflow tensor using struct format and shape
        
        Parameters
        ----------
        s : struct.Struct
            The struct format to use.
        shape : Tuple[int, ...]
            The shape of the TensorFlow tensor.
        
        Returns
        -------
        tensorflow.Tensor
            The unpacked TensorFlow tensor.
        """
        import tensorflow as tf

        arr = self.unpack_numpy(s, shape)
        return tf.constant(arr)

    def unpack(self, s: struct.Struct):
        """
        Unpacks data from the buffer using a given struct format.
        
        Parameters
        ----------
        s : struct.Struct
            The struct format to use for unpacking data.
        
        Returns
        -------
        Unpacked data as specified by the struct format.
        """
        self.expect_to_read(s.size)
        unpack: tuple = s.unpack_from(self.buffer, self.read_offset - self.read_skipped)
        self.advance(s)
        if len(unpack) == 1:
            return unpack[0]
        return unpack

    def advance(self, s: struct.Struct, times=1):
        """
        Updates read_offset by number of times and size of given struct -> advances read offset in buffer
        
        Parameters
        ----------
        s : struct.Struct
            The struct format that determines the data size.
        times : int, optional
            The number of times to advance the read offset. Default is 1.
        """
        self.read_offset += s.size * times

    def skip(self, s: struct.Struct, times=1):
        self.advance(s, times)

    def unpack_str(self) -> str:
        """
        Unpacks a string from the buffer.
        
        Returns
        -------
        str
            The unpacked string, encoded in UTF-8.
        """
        length: int = self.unpack(ConstStructs.ushort)
        self.expect_to_read(length)
        bytes_: bytes = self.unpack_f("%ds" % length)
        return bytes_.decode("utf-8")


class BytesIOReader(BufferReader):
    def __init__(self, reader: BytesIO):
        super().__init__(bytearray())
        self.reader = reader

    def skip(self, s: struct.Struct, times=1):
        self.buffer = self.buffer[:self.read_offset - self.read_skipped] # remove the bytes that were not used
        self.read_skipped += s.size * times
        super().skip(s, times)

    def read_chunk(self, chunk_size: int):
        self.reader.seek(self.read_skipped + len(self.buffer), 0) # continue right after the buffered bytes (0 means absolute seek)
        self.buffer.extend(self.reader.read(chunk_size))
        self.total_bytes_read += chunk_size

        if not self.buffer:
            raise EOFError("End of file reached")

    def expect_to_read(self, n: int):
        if self.bytes_left() < n:
            self.read_chunk(n - self.bytes_left())

    def bytes_remaining(self):
        # bytes_left() only counts the bytes fetched so far: ask the stream where it ends
        return self.reader.seek(0, 2) - self.read_offset


if __name__ == "__main__":
    from tqdm import tqdm

    buffer = struct.pack("<H5s", 5, bytes("hello", 'utf8'))
    reader = BufferReader(buffer)

    for _ in tqdm(range(10000)):
        reader.read_offset = 0
        reader.unpack_str()
