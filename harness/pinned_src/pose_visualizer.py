import itertools
import logging
import math
from functools import lru_cache
from io import BytesIO
from typing import Iterable, Tuple, Union

import numpy as np
import numpy.ma as ma
from tqdm import tqdm

from .pose import Pose


class PoseVisualizer:
    """
    A class for visualizing Pose objects using OpenCV.

    Parameters
    ----------
    pose : Pose
        The Pose object to visualize.
    thickness : int or None
        Thickness for drawing. If not provided, it is estimated based on image size.
    pose_fps : float
        Frame rate of the Pose data.
    *cv2 : module
        OpenCV Python binding.
    """

    def __init__(self, pose: Pose, thickness=None):
        """Initialize the PoseVisualizer class."""
        self.pose = pose
        self.thickness = thickness
        self.pose_fps = float(self.pose.body.fps)

        try:
            import cv2
            self.cv2 = cv2
        except ImportError:
            raise ImportError("Please install OpenCV with: pip install opencv-python")

    def _draw_frame(self, frame: ma.MaskedArray,
                    frame_confidence: np.ndarray, img,
                    transparency: bool = False) -> np.ndarray:
        """
        Draw frame of pose data of an image.

        Parameters
        ----------
        frame : ma.MaskedArray
            2D array containing the pose data for a frame.
        frame_confidence : np.ndarray
            Confidence values for each point in the frame.
        img : np.ndarray
            Background image where upon pose will be drawn.
        transparency : bool
            transparency decides opacity of background color,

        Returns
        -------
        np.ndarray
            Image with drawn pose data.
        """

        background_color = img[0][0]  # Estimation of background color for opacity. `mean` is slow

        # Estimation of thickness and radius for drawing
        thickness = self.thickness
        if self.thickness is None:
            thickness = round(math.sqrt(img.shape[0] * img.shape[1]) / 150)
        radius = math.ceil(thickness / 2)

        draw_operations = []

        for person, person_confidence in zip(frame, frame_confidence):
            c = person_confidence.tolist()
            idx = 0
            for component in self.pose.header.components:
                colors = [np.array(c[::-1]) for c in component.colors]

                @lru_cache(maxsize=None)
                def _point_color(p_i: int):
                    opacity = c[p_i + idx]
                    np_color = colors[p_i % len(component.colors)] * opacity + (1 - opacity) * background_color[
                                                                                               :3]  # [:3] ignores alpha value if present
                    if transparency:
                        np_color = np.append(np_color, opacity * 255)
                    return tuple([int(c) for c in np_color])

                # Collect Points
                for i, point_name in enumerate(component.points):
                    if c[i + idx] > 0:
                        center = person[i + idx]
                        draw_operations.append({
                            'type': 'circle',
                            'center': center,
                            'radius': radius,
                            'color': _point_color(i),
                            'thickness': -1,
                            'lineType': 16,
                            'z': center[2] if len(center) > 2 else 0
                        })

                if self.pose.header.is_bbox:
                    point1 = person[0 + idx]
                    point2 = person[1 + idx]
                    color = tuple(np.mean([_point_color(0), _point_color(1)], axis=0))

                    draw_operations.append({
                        'type': 'rectangle',
                        'pt1': point1,
                        'pt2': point2,
                        'color': color,
                        'thickness': thickness,
                        'z': (point1[2] + point2[2]) / 2 if len(point1) > 2 else 0
                    })
                else:
                    # Collect Limbs
                    for (p1, p2) in component.limbs:
                        if c[p1 + idx] > 0 and c[p2 + idx] > 0:
                            point1 = person[p1 + idx]
                            point2 = person[p2 + idx]

                            color = tuple(np.mean([_point_color(p1), _point_color(p2)], axis=0))

                            draw_operations.append({
                                'type': 'line',
                                'pt1': point1,
                                'pt2': point2,
                                'color': color,
                                'thickness': thickness,
                                'lineType': self.cv2.LINE_AA,
                                'z': (point1[2] + point2[2]) / 2 if len(point1) > 2 else 0
                            })

                idx += len(component.points)

        draw_operations = sorted(draw_operations, key=lambda op: op['z'], reverse=True)

        def point_to_xy(point: ma.MaskedArray):
            return tuple([round(p) for p in point[:2]])

        # Execute draw operations
        for op in draw_operations:
            if op['type'] == 'circle':
                self.cv2.circle(img=img,
                                center=point_to_xy(op['center']),
                                radius=op['radius'],
                                color=op['color'],
                                thickness=op['thickness'],
                                lineType=op['lineType'])
            elif op['type'] == 'rectangle':
                self.cv2.rectangle(img=img,
                                   pt1=point_to_xy(op['pt1']),
                                   pt2=point_to_xy(op['pt2']),
                                   color=op['color'],
                                   thickness=op['thickness'])
            elif op['type'] == 'line':
                self.cv2.line(img,
                              pt1=point_to_xy(op['pt1']),
                              pt2=point_to_xy(op['pt2']),
                              color=op['color'],
                              thickness=op['thickness'],
                              lineType=op['lineType'])

        return img

    def draw(self, background_color: Tuple[int, int, int] = (255, 255, 255), max_frames: int = None,
             transparency: bool = False):
        """
        draws pose on plain background using the specified color - for a number of frames.

        Parameters
        ----------
        background_color : Tuple[int, int, int], optional
            RGB value for background color, default is white (255, 255, 255).
        max_frames : int, optional
            Maximum number of frames to process, if it is None, it processes all frames.
        transparency : bool
            transparency decides opacity of background color, it is only used in the case of PNG i.e It doesn't affect GIF.
        Yields
        ------
        np.ndarray
            Frames with the pose data drawn on a custom background color.
        """
        # ...
        if transparency:
            background_color += (0,)
        background = np.full(
            (self.pose.header.dimensions.height, self.pose.header.dimensions.width, len(background_color)),
            fill_value=background_color,
            dtype="uint8")
        for frame, confidence in itertools.islice(zip(self.pose.body.data, self.pose.body.confidence), max_frames):
            yield self._draw_frame(frame, confidence, img=background.copy(), transparency=transparency)

    def draw_on_video(self, background_video, max_frames: int = None, blur=False):
        """
        Draw pose on a background video.

        Parameters
        ----------
        background_video : str or iterable
            Path to video file or iterable of video frames.
        max_frames : int, optional
            Maximum number of frames to process. If None, it will be processing all frames.
        blur : bool, optional
            If True, applies a blur effect to the video.

        Yields
        ------
        np.ndarray
            Frames with overlaid pose data.
        """
        int_data = np.array(np.around(self.pose.body.data.data), dtype="int32")

        if max_frames is None:
            max_frames = len(int_data)

        def get_frames(video_path):

            cap = self.cv2.VideoCapture(video_path)
            video_fps = cap.get(self.cv2.CAP_PROP_FPS)

            assert math.isclose(video_fps, self.pose_fps, abs_tol=0.1), \
                "Fps of pose and video do not match: %f != %f" % (self.pose_fps, video_fps)

            while True:
                ret, vf = cap.read()
                if not ret:
                    break
                yield vf
            cap.release()

        if isinstance(background_video, str):
            background_video = iter(get_frames(background_video))

        for frame, confidence, background in itertools.islice(
                zip(int_data, self.pose.body.confidence, background_video), max_frames):
            background = self.cv2.resize(background,
                                         (self.pose.header.dimensions.width, self.pose.header.dimensions.height))

            if blur:
                background = self.cv2.blur(background, (20, 20))

            yield self._draw_frame(frame, confidence, background)

    def save_frame(self, f_name: str, frame: np.ndarray):
        """
        Save a single pose frame as im.

        Parameters
        ----------
        f_name : str
            filensmr where the frame will be saved.
        frame : np.ndarray
            Pose frame to be saved

        Returns
        -------
        None
        """
        self.cv2.imwrite(f_name, frame)

    def _save_image(self, f_name: Union[str, None], frames: Iterable[np.ndarray], format: str = "GIF",
                    transparency: bool = False) -> Union[None, bytes]:
        """
        Save pose frames as Image (GIF or PNG).

        Parameters
        ----------
        f_name : Union[str, None]
        	Filename to save Image to. If None, image will be saved to memory and returned as bytes.
        frames : Iterable[np.ndarray]
            Series of pose frames to be included in Image.
        format : str
            format to save takes either GIF or PNG.
        transparency : bool
            transparency decides opacity of background color.

        Returns
        -------
        Union[None, bytes]
        	If f_name is None, returns the image data as bytes. Otherwise, returns None.

        Raises
        ------
        ImportError 
            If Pillow is not installed.
        """
        try:
            from PIL import Image
        except ImportError:
            raise ImportError("Please install Pillow with: pip install Pillow")

        if transparency:
            cv_code = self.cv2.COLOR_BGR2RGBA
        else:
            cv_code = self.cv2.COLOR_BGR2RGB

        images = [Image.fromarray(self.cv2.cvtColor(frame, cv_code)) for frame in frames]

        def save_to(obj: Union[str, None]):
            images[0].save(obj,
                           format=format,
                           append_images=images[1:],
                           save_all=True,
                           duration=1000 / self.pose.body.fps,
                           loop=0,
                           disposal=2 if transparency else 0)

        if f_name:
            save_to(f_name)
        else:
            with BytesIO() as mem:
                save_to(mem)
                return mem.getvalue()

    def save_gif(self, f_name: Union[str, None], frames: Iterable[np.ndarray]) -> Union[None, bytes]:
        """
        Save pose frames as GIF.

        Parameters
        ----------
        f_name : Union[str, None]
       		Filename to save PNG to. If None, image will be saved to memory and returned as bytes.
        frames : Iterable[np.ndarray]
            Series of pose frames to be included in GIF.

        Returns
        -------
        Union[None, bytes]
        	If f_name is None, returns the PNG image data as bytes. Otherwise, returns None.

        Raises
        ------
        ImportError 
            If Pillow is not installed.
        """
        return self._save_image(f_name, frames, "GIF", False)

    def save_png(self, f_name: Union[str, None], frames: Iterable[np.ndarray],
                 transparency: bool = True) -> Union[None, bytes]:
        """
        Save pose frames as PNG.

        Parameters
        ----------
        f_name : Union[str, None]
        	Filename to save PNG to. If None, image will be saved to memory and returned as bytes.
        frames : Iterable[np.ndarray]
            Series of pose frames to be included in PNG.
        transparency : bool
            transparency decides opacity of background color.

        Returns
        -------
        Union[None, bytes]
        	If f_name is None, returns the PNG image data as bytes. Otherwise, returns None.

        Raises
        ------
        ImportError 
            If Pillow is not installed.
        """
        return self._save_image(f_name, frames, "PNG", transparency)

    def save_video(self, f_name: str, frames: Iterable[np.ndarray], custom_ffmpeg=None):
        """
        Save pose frames as a video.

        Parameters
        ----------
        f_name : str
            Filename to which the generated video is saved to .
        frames : Iterable[np.ndarray]
            Iterable of pose frames include in the video.
        custom_ffmpeg : optional
            Custom ffmpeg parameters for the "video writing".

        Returns
        -------
        None

        Raises
        ------
        ImportError 
            If vidgear is not installed.
        """
        try:
            from vidgear.gears import WriteGear
        except ImportError:
            raise ImportError("Please install vidgear with: pip install vidgear")

        # image_size = (self.pose.header.dimensions.width, self.pose.header.dimensions.height)

        output_params = {
            "-vcodec": "libx264",
            "-preset": "fast",
            "-input_framerate": self.pose.body.fps,
        }

        writer = None  # Define writer with defined parameters and suitable output filename for e.g. `Output.mp4`
        for frame in tqdm(frames):
            if writer is None:  # Create writer on first frame
                if frame.shape[0] % 2 == 0 and frame.shape[1] % 2 == 0:
                    output_params["-pix_fmt"] = "yuv420p"  # H.264
                else:
                    logging.warning(
                        "Video shape is not divisible by 2. Can not use H.264. Consider resizing to a divisible shape.")
                writer = WriteGear(output=f_name, logging=False, custom_ffmpeg=custom_ffmpeg, **output_params)
            writer.write(frame)

        writer.close()


class FastAndUglyPoseVisualizer(PoseVisualizer):
    """
    This class draws all frames as grayscale, without opacity based on confidence values.
    It is a faster and less detailed "ugly" class for visualizing Pose objects using OpenCV.
    
    * Inherites from `PoseViszaizer`
    """

    def _draw_frame(self, frame: ma.MaskedArray, img, color: int):
        """
        Draw a frame of pose on an image using a one color.

        Parameters
        ----------
        frame : ma.MaskedArray
            2D array containing the pose data for a single frame.
        img : np.ndarray
            The background image on which the pose is to be drawn.
        color : int
            Grayscale color value to use for drawing the pose.

        Returns
        -------
        np.ndarray
            Image with drawn pose data.
        """
        ignored_point = (0, 0)
        # Note: this can be made faster by drawing polylines instead of lines
        thickness = 1
        for person in frame:
            points_2d = [tuple(p) for p in person[:, :2].tolist()]
            idx = 0
            for component in self.pose.header.components:
                for (p1, p2) in component.limbs:
                    point1 = points_2d[p1 + idx]
                    point2 = points_2d[p2 + idx]
                    if point1 != ignored_point and point2 != ignored_point:
                        # Antialiasing is a bit slow, but necessary
                        self.cv2.line(img, point1, point2, color, thickness, lineType=self.cv2.LINE_AA)

                idx += len(component.points)
        return img

    def draw(self, background_color: int = 0, foreground_color: int = 255):
        """
        draws the pose on plain background using a foreground (pose) color.

        Parameters
        ----------
        background_color : int
            Grayscale value for background color.
        foreground_color : int
            Grayscale value for the pose color.

        Yields
        ------
        np.ndarray
            frames with drawn pose
        """
        background = np.full((self.pose.header.dimensions.height, self.pose.header.dimensions.width),
                             fill_value=background_color,
                             dtype="uint8")
        for frame in self.pose.body.data:
            yield self._draw_frame(frame, img=background.copy(), color=foreground_color)
