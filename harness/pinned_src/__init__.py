from pose_format.pose import Pose
from pose_format.pose_body import PoseBody
from pose_format.pose_header import PoseHeader
