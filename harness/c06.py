"""C06 - a read depends only on bytes and arguments, never on earlier reads or callers; results share no
mutable state."""
import copy as _copy

import numpy as np

import common
import posegen as pg
import translate_py


def mk_file(rng, names, pts, F, D, fill, allvalid=False, nocolor=()):
    comps = []
    k = 0
    for i, n in enumerate(pts):
        comps.append({"name": pg.cps(names[i]), "format": pg.cps("XYZ"[:D] + "C"), "points": [pg.cps("p%d_%d" % (i, j)) for j in range(n)],
                      "limbs": [[0, max(0, n - 1)]] if n else [], "colors": [[10 * i, 1, 2]] if n and i not in nocolor else []})
    T = sum(pts)
    n = F * 1 * T * D
    case = {"dims": [100 + fill, 200, 0], "comps": comps, "fps": pg.b64(25.0), "shape": [F, 1, T, D], "cshape": [F, 1, T], "dtype": "f32",
            "edge": "none", "data": [pg.b64(float(fill * 1000 + i)) for i in range(n)],
            "conf": [pg.b64(0.0 if (i + fill) % 5 == 0 and not allvalid else 1.0) for i in range(F * T)]}
    w = pg.impl_write(case)
    assert w[0] == "ok", w
    return w[1]


MUTATORS = ["focus", "set_width", "new_dimensions", "rename_component", "rename_point", "append_limb", "edit_color", "append_color", "pop_component",
            "write_body", "write_conf", "set_fps", "normalize_size", "mask_cell", "mask_all", "assign_mask"]


def apply_mutator(pose, name):
    h = pose.header
    if name == "focus":
        pose.focus()
    elif name == "set_width":
        h.dimensions.width = 7
        h.dimensions.height = 3
    elif name == "new_dimensions":
        from pose_format.pose_header import PoseHeaderDimensions
        h.dimensions = PoseHeaderDimensions(4, 3, 2)
    elif name == "rename_component":
        h.components[0].name = "RENAMED"
    elif name == "rename_point":
        for c in h.components:
            if c.points:
                c.points[0] = "RENAMED_POINT"
                break
    elif name == "append_limb":
        h.components[0].limbs.append((0, 0))
    elif name == "edit_color":
        for c in h.components:
            if len(c.colors):
                c.colors[0][0] = 999
                break
    elif name == "append_color":
        # only a component whose colours are held in a list can grow in place (an ndarray refuses: the owner's call fails, nothing changes)
        h.components[-1].colors.append((7, 7, 7))
    elif name == "pop_component":
        if len(h.components) > 1:
            h.components.pop()
    elif name == "write_body":
        if pose.body.data.size:
            pose.body.data[...] = 12345.0
    elif name == "write_conf":
        if pose.body.confidence.size:
            pose.body.confidence[...] = 0.25
    elif name == "set_fps":
        pose.body.fps = 99.0
    elif name == "mask_cell":
        # marking a point missing in place, the numpy.ma way
        import numpy.ma as ma
        if pose.body.data.size:
            pose.body.data[0, 0, 0] = ma.masked
    elif name == "mask_all":
        import numpy.ma as ma
        if pose.body.data.size and ma.getmask(pose.body.data) is not ma.nomask:
            pose.body.data.mask[...] = True
    elif name == "assign_mask":
        if pose.body.data.size:
            m = np.zeros(pose.body.data.shape, dtype=bool)
            m[-1] = True
            pose.body.data.mask = m
    elif name == "normalize_size":
        # utils/generic.py normalize_pose_size writes header.dimensions.width/height in place
        h.dimensions.width = 1000
        h.dimensions.height = 1000


def header_objects(pose):
    h = pose.header
    objs = [("header", h), ("dimensions", h.dimensions), ("components", h.components)]
    for i, c in enumerate(h.components):
        objs += [("component%d" % i, c), ("points%d" % i, c.points), ("limbs%d" % i, c.limbs)]
        if isinstance(c.colors, (list, np.ndarray)):
            objs.append(("colors%d" % i, c.colors))
    return objs


class C06(common.Prop):
    ID = "C06"
    RUNNER = "codec"
    MODEL_FILES = ["model/PoseRead.v", "model/C06_Heap.v", "base/Graph.v", "base/GraphEdit.v", "model/C06_Graph.v", "model/C06_GraphRun.v"]
    RULE = ("histories of 1..8 steps over five small files (same file; same header other body; shorter / equal-length / longer other "
            "header): reads (bytes or stream, full or windowed), in-place mutations of earlier results through every public mutator, "
            "copies; then a probe read. Each result is snapshotted when created and re-dumped at the end; the probe is compared with "
            "a read in a fresh memo state; object identity of every header sub-object and memory sharing of body arrays are compared "
            "pairwise. non-trivial = history contains a mutation or a read of a different file before the probe; distinct by content " "Plus as many histories inside the object-graph model's scope (byte and stream sources, v0.2 files), compared pose by pose at the end of the history; mutators include in-place mask edits, attribute assignment of new objects and components.pop().")
    TRUSTED = ["Coq 8.16.1 kernel", "harness/translate_py.py", "extraction: ExtrOcamlBasic only; runner/driver.ml",
               "harness/posegen.py dump / canonicalisers; id()- and np.shares_memory-based aliasing graph"]
    ASSUMPTIONS = ["hashlib.md5 is injective on the header slices compared", "copy.deepcopy produces an object graph disjoint from its argument"]

    def translate(self):
        return translate_py.codec_gen()

    def setup(self):
        import random
        r = random.Random(7)
        self.files = {
            "A": mk_file(r, ["body", "hand"], [3, 2], 4, 2, 1),
            "A2": mk_file(r, ["body", "hand"], [3, 2], 6, 2, 1),      # identical header, other body
            "B": mk_file(r, ["bo"], [2], 3, 2, 2, nocolor=(0,)),       # shorter header; its component lists no colours
            "C": mk_file(r, ["body", "hand", "face_long_name"], [3, 2, 4], 3, 2, 3, nocolor=(2,)),   # longer header; last component colourless
            "D": mk_file(r, ["bodz", "hanb"], [3, 2], 4, 2, 4),       # equal-length header, different content
            "V": mk_file(r, ["body", "hand"], [3, 2], 4, 2, 5, allvalid=True),     # nothing missing anywhere (no zero confidence)
            "V2": mk_file(r, ["bo"], [5], 4, 2, 6, allvalid=True),                  # same body shape as V, nothing missing either
        }
        assert len(self.files["A"]) - 4 * 2 * 5 * 4 - 4 * 5 * 4 == len(self.files["D"]) - 4 * 2 * 5 * 4 - 4 * 5 * 4
        # legacy twin of A: byte-identical dimensions and components, version 0.1 and the v0.1 body layout
        a = self.files["A"]
        import struct as _st
        hdr_len = len(a) - 10 - 4 * 4 * 5 * 3          # F=4, P=1, T=5, D=2: data 4*(F*T*D) + conf 4*(F*T) bytes after the 10 info bytes
        assert hdr_len > 0
        v01 = list(_st.pack("<f", 0.1)) + a[4:hdr_len] + list(_st.pack("<HHH", 25, 4, 1)) + a[hdr_len + 10:]
        self.files["A01"] = v01
        self.names = sorted(self.files)

    def gen_cases(self, rng, tier):
        n = 250 if tier == "quick" else 4000
        for _ in range(n):
            steps = []
            nres = 0
            for _ in range(rng.randrange(1, 9)):
                r = rng.random()
                if nres == 0 or r < 0.45:
                    f = rng.choice(self.names)
                    # (a start beyond the last frame raises: a read that FAILS is part of a history too)
                    args = rng.choice([{}, {}, {"start_frame": 1}, {"end_frame": 2}, {"start_frame": 1, "end_frame": 3}, {"start_frame": 99}])
                    steps.append(["read", f, rng.choice(["bytes", "bytes", "stream"]), args])
                    nres += 1
                elif r < 0.85:
                    steps.append(["mutate", rng.randrange(nres), rng.choice(MUTATORS)])
                else:
                    steps.append(["copy", rng.randrange(nres)])
                    nres += 1
            probe = [rng.choice(self.names), rng.choice(["bytes", "bytes", "stream"]),
                     rng.choice([{}, {}, {"start_frame": 1, "end_frame": 2}])]
            yield {"steps": steps, "probe": probe}
        # histories inside the object-graph model's scope (byte and stream sources, v0.2 files, edits that keep the set of objects): compared
        # with it pose by pose - every pose handed out, as it is at the END of the history
        gnames = [x for x in self.names if x != "A01"]
        gmut = list(MUTATORS)
        for _ in range(n):
            steps = []
            nres = 0
            for _ in range(rng.randrange(2, 10)):
                r = rng.random()
                if nres == 0 or r < 0.4:
                    steps.append(["read", rng.choice(gnames), rng.choice(["bytes", "bytes", "stream"]),
                                  rng.choice([{}, {}, {"start_frame": 1}, {"end_frame": 2}, {"start_frame": 1, "end_frame": 3}, {"start_frame": 99}])])
                    nres += 1
                elif r < 0.8:
                    steps.append(["mutate", rng.randrange(nres), rng.choice(gmut)])
                else:
                    steps.append(["copy", rng.randrange(nres)])
                    nres += 1
            yield {"steps": steps, "probe": [rng.choice(gnames), rng.choice(["bytes", "bytes", "stream"]), rng.choice([{}, {}, {"start_frame": 1, "end_frame": 2}])]}
        yield {"steps": [], "probe": ["A", "bytes", {}], "tfgraph": True}

    def features(self, case):
        if case.get("tfgraph"):
            return ("tf-graph-copy", 0, "-", "-")
        kinds = sorted(set(s[0] for s in case["steps"]))
        muts = sorted(set(s[2] for s in case["steps"] if s[0] == "mutate"))
        return ("+".join(kinds), len(case["steps"]), muts[0] if muts else "-", case["probe"][1])

    def nontrivial(self, case):
        if case.get("tfgraph"):
            return True
        return any(s[0] == "mutate" for s in case["steps"]) or len(set(s[1] for s in case["steps"] if s[0] == "read")) > 1

    # ---------------------------------------------------------------- implementation
    def _read(self, fname, kind, args, fresh=False):
        from pose_format import Pose
        import io
        # the caller keeps ONE bytes object per file and reads it again and again (fresh=True: a new copy, what a fresh process holds)
        data = bytes(self.files[fname]) if fresh else self.shared.setdefault(fname, bytes(self.files[fname]))
        a = {k: v for k, v in args.items()}
        return Pose.read(data if kind == "bytes" else io.BytesIO(data), **a)

    def torch_scribble(self, fname):
        """an earlier caller read the same bytes object into a PyTorch body and edited the tensors in place"""
        from pose_format import Pose
        from pose_format.torch.pose_body import TorchPoseBody
        import warnings
        data = self.shared.setdefault(fname, bytes(self.files[fname]))
        with warnings.catch_warnings():
            warnings.simplefilter("ignore")
            try:
                p = Pose.read(data, pose_body=TorchPoseBody)
            except Exception:
                return
            for f in (lambda: p.body.data.tensor.mul_(0).add_(7), lambda: p.body.confidence.zero_(), lambda: p.body.data.mask.fill_(False)):
                try:
                    f()
                except Exception:
                    pass

    def run_tfgraph(self, case):
        """copy() of a TensorFlow body inside a graph (tf.function / Dataset.map): it may refuse (eager tensors are needed for the
        detaching round trip), but a copy that IS handed out is an object of its own - not the source's masked-tensor wrapper, whose
        attributes an edit through the copy would re-bind for the source too"""
        shared = []
        try:
            import tensorflow as tf
            from pose_format.tensorflow.pose_body import TensorflowPoseBody
            from pose_format.tensorflow.masked.tensor import MaskedTensor
            with tf.Graph().as_default():
                d = tf.constant(np.arange(24, dtype=np.float32).reshape(2, 1, 4, 3))
                m = tf.constant(np.ones((2, 1, 4, 3), dtype=bool))
                c = tf.constant(np.ones((2, 1, 4), dtype=np.float32))
                b = TensorflowPoseBody(25.0, MaskedTensor(d, m), c)
                try:
                    cp = b.copy()
                except Exception:
                    cp = None
                if cp is not None and cp.data is b.data:
                    shared.append([0, 1, "tensorflow body: copy().data IS the source's MaskedTensor object"])
        except Exception:
            pass
        case["_impl"] = {"probe": ["-"], "fresh": ["-"], "changed": [], "shared": shared, "touched": []}
        case["_mut_dumps"], case["_impl_handed"], case["_ncomps"] = [], [], []
        return {"probe": ["-"], "finals": [], "shared_cells": bool(shared)}

    def run_impl(self, case):
        if case.get("tfgraph"):
            return self.run_tfgraph(case)
        from pose_format.pose_header import PoseHeaderCache
        PoseHeaderCache.clear_cache()
        self.shared = {}
        if (len(case["steps"]) + len(case["probe"][0])) % 3 == 0 and case["probe"][0] != "A01":
            for fname in sorted({st[1] for st in case["steps"] if st[0] == "read"} | {case["probe"][0]}):
                if fname != "A01":
                    self.torch_scribble(fname)
            PoseHeaderCache.clear_cache()
        results = []       # (pose, snapshot after creation / own mutations, mutated?)
        mut_dumps = []     # per step: the mutated pose's dump right after a mutation (None otherwise)
        ncomps = []        # per result: number of component objects when it was handed out
        for st in case["steps"]:
            mut_dumps.append(None)
            if st[0] == "read":
                try:
                    p = self._read(st[1], st[2], st[3])
                except Exception as e:          # a read that raises hands nothing out (the slot stays, so indexes keep their meaning)
                    results.append([None, ["err", type(e).__name__], ("read", st[1], st[2], st[3])])
                    ncomps.append(None)
                    continue
                results.append([p, pg.dump_pose(p), ("read", st[1], st[2], st[3])])
                ncomps.append(len(p.header.components))
            elif st[0] == "copy":
                if results[st[1]][0] is None:
                    results.append([None, ["err", "no-source"], ("copy", st[1])])
                    ncomps.append(None)
                    continue
                p = results[st[1]][0].copy()
                results.append([p, pg.dump_pose(p), ("copy", st[1])])
                ncomps.append(len(p.header.components))
            elif results[st[1]][0] is not None:
                try:
                    apply_mutator(results[st[1]][0], st[2])
                except Exception:       # an operation that refuses this pose (focus on a pose without observed points): whatever it
                    pass                # did before raising is still the owner's own change
                results[st[1]][1] = pg.dump_pose(results[st[1]][0])
                mut_dumps[-1] = results[st[1]][1]

        def safe_probe(fresh=False):
            try:
                pp = self._read(*case["probe"], fresh=fresh)
                return pp, pg.dump_pose(pp)
            except Exception as e:
                return None, ["err"]
        probe, probe_dump = safe_probe()
        # what the same read returns in a fresh process state (empty memo, a new copy of the bytes)
        PoseHeaderCache.clear_cache()
        fresh = safe_probe(fresh=True)[1]
        touched = [n for n, b in self.shared.items() if b != bytes(self.files[n])]
        # every earlier result must still be what it was after its own last mutation
        changed = [i for i, (p, snap, _) in enumerate(results) if p is not None and pg.dump_pose(p) != snap]
        # aliasing graph
        shared = []
        allp = [r[0] for r in results if r[0] is not None] + ([probe] if probe is not None else [])
        for i in range(len(allp)):
            for j in range(i + 1, len(allp)):
                ids_i = {id(o): n for n, o in header_objects(allp[i])}
                for n, o in header_objects(allp[j]):
                    if id(o) in ids_i:
                        shared.append([i, j, n])
                bi, bj = allp[i].body, allp[j].body
                import numpy.ma as ma
                mi, mj = ma.getmask(bi.data), ma.getmask(bj.data)
                if np.shares_memory(np.asarray(bi.data.data), np.asarray(bj.data.data)) or \
                        np.shares_memory(np.asarray(bi.confidence), np.asarray(bj.confidence)) or \
                        (mi is not ma.nomask and mj is not ma.nomask and np.shares_memory(mi, mj)):
                    shared.append([i, j, "body"])
        case["_impl"] = {"probe": probe_dump, "fresh": fresh, "changed": changed, "shared": shared, "touched": touched}
        case["_mut_dumps"] = mut_dumps
        case["_impl_handed"] = [r[0] is not None for r in results]
        case["_ncomps"] = ncomps
        # every pose handed out, as it is at the end of the history (failed reads hand nothing out)
        finals = [pg.dump_pose(r[0]) for r in results if r[0] is not None]
        return {"probe": probe_dump, "finals": finals, "shared_cells": bool(shared)}

    # ---------------------------------------------------------------- model
    @staticmethod
    def _enc_strs(strs):
        out = []
        for x in strs:
            out += [len(x)] + list(x)
        return out

    def _cell_edits(self, k, d):
        """the in-place state of pose k after a mutation, as payload assignments to its cells (paths of model/C06_Graph.v)"""
        ed = [[1, k, [0], [d["version"]]], [1, k, [0, 0], list(d["dims"])]]
        for ci, c in enumerate(d["comps"]):
            ed.append([1, k, [0, 1, ci], self._enc_strs([c["name"], c["format"]])])
            ed.append([1, k, [0, 1, ci, 0], self._enc_strs(c["points"])])
            ed.append([1, k, [0, 1, ci, 1], [x for l in c["limbs"] for x in l]])
            ed.append([1, k, [0, 1, ci, 2], [x for l in c["colors"] for x in l]])
        ed.append([1, k, [1], [d["fps"]] + list(d["shape"])])
        ed.append([1, k, [1, 0], list(d["data"])])
        ed.append([1, k, [1, 1], [int(x) for x in d["mask"]]])
        ed.append([1, k, [1, 2], list(d["conf"])])
        return ed

    def run_model(self, case, runner):
        if case.get("tfgraph"):
            return None
        if case["probe"][0] != "A01":
            g = self.run_graph_model(case, runner)
            if g is not None:
                self.graph_cases = getattr(self, "graph_cases", 0) + 1
                return g
        return self.run_value_model(case, runner)

    def run_graph_model(self, case, runner):
        steps = case["steps"]
        # which results exist on the implementation side tells which reads handed a pose out (the model reports its own flags)
        ops, kinds = [], []
        handed_of_result = []      # result index -> handed index or None
        model_ncomps = {}          # handed index -> component objects the model's copy of that pose has now
        nh = 0
        impl_finals = case.get("_impl_handed")      # list of bool per result slot
        ri = 0
        for i, st in enumerate(steps):
            if st[0] == "read":
                if st[1] == "A01":
                    return None
                ops.append([0 if st[2] == "bytes" else 5, self.names.index(st[1]), pg.args_tree(st[3])])
                ok = impl_finals[ri]; ri += 1
                handed_of_result.append(nh if ok else None)
                nh += 1 if ok else 0
            elif st[0] == "copy":
                ok = impl_finals[ri]; ri += 1
                if handed_of_result[st[1]] is None:
                    handed_of_result.append(None)
                    continue
                ops.append([2, handed_of_result[st[1]]])
                if ok:
                    src = handed_of_result[st[1]]
                    model_ncomps[nh] = model_ncomps.get(src, case["_ncomps"][st[1]])
                handed_of_result.append(nh if ok else None)
                nh += 1 if ok else 0
            else:
                d = case["_mut_dumps"][i]
                k = handed_of_result[st[1]]
                if d is None or k is None:
                    continue
                if any(not isinstance(x, int) for x in d["mask"]) or "data_dtype" in d or "conf_shape" in d:
                    return None
                nc = model_ncomps.setdefault(k, case["_ncomps"][st[1]])
                if st[2] == "pop_component" and len(d["comps"]) == nc - 1:
                    ops.append([4, k, [0, 1]])                       # header.components.pop(): the list object loses its last pointer
                    model_ncomps[k] = nc = nc - 1
                elif st[2] == "new_dimensions":
                    ops.append([3, k, [0], 0, list(d["dims"])])      # header.dimensions = PoseHeaderDimensions(...): a new object
                if len(d["comps"]) != nc:
                    return None          # some other edit changed which objects exist: outside the model
                ops += self._cell_edits(k, d)
        f, kind, args = case["probe"]
        ops.append([0 if kind == "bytes" else 5, self.names.index(f), pg.args_tree(args)])
        rep = runner.ask([9, [self.files[n] for n in self.names], ops])
        flags, poses, cells, memo_cells = rep
        finals = [pg.pose_of_tree(t[0]) if len(t) == 1 else None for t in poses]
        probe_handed = bool(flags[-1])
        probe = finals.pop() if probe_handed else ["err"]
        allc = [c for cs in (cells[:-1] if probe_handed else cells) for c in cs]
        shared = len(set(allc)) != len(allc) or bool(set(memo_cells) & set(allc))
        return {"probe": probe, "finals": finals, "shared_cells": shared}

    def run_value_model(self, case, runner):
        # value-level model of the probe: Pose.read in the memo state left by the history's reads (mutations and copies
        # cannot reach the memo in the model: the memo owns a private copy)
        files = [self.files[n] for n in self.names]
        ops = []
        for st in case["steps"]:
            if st[0] == "read":
                ops.append([self.names.index(st[1]), 0 if st[2] == "bytes" else 1, pg.args_tree(st[3])])
        f, kind, args = case["probe"]
        if f == "A01":
            return None          # the byte-layer runner has no legacy decoders: v0.1 probes are judged by the oracle only
        ops.append([self.names.index(f), 0 if kind == "bytes" else 1, pg.args_tree(args)])
        rep = runner.ask([5, files, ops])
        r = pg.result_of_tree(rep[-1][0], pg.pose_of_tree)
        return {"probe": r[1] if r[0] == "ok" else ["err"]}

    def compare(self, case, io, mo):
        if io["probe"] != mo["probe"]:
            return "probe read differs from the model's history-threaded read"
        if "finals" in mo:
            if len(io["finals"]) != len(mo["finals"]):
                return "the model hands out %d poses, the implementation %d" % (len(mo["finals"]), len(io["finals"]))
            for k, (a, b) in enumerate(zip(io["finals"], mo["finals"])):
                if a != b:
                    diff = [x for x in (b or {}) if (a or {}).get(x) != b[x]] if isinstance(a, dict) and isinstance(b, dict) else ["?"]
                    return "pose %d handed out earlier differs at the end of the history from the object-graph model (%s)" % (k, diff)
            if io["shared_cells"] != mo["shared_cells"]:
                return "sharing between results: implementation %s, model %s" % (io["shared_cells"], mo["shared_cells"])
        return None

    def teardown(self):
        print("C06 object-graph model compared on %d histories (the others: legacy twin / edits that change which objects exist -> value-level model)"
              % getattr(self, "graph_cases", 0))

    # ---------------------------------------------------------------- oracle
    def oracle(self, case):
        r = case["_impl"]
        if r.get("touched"):
            return {"what": "the caller's byte strings %s were modified (a result of an earlier read shares memory with its source)" % r["touched"],
                    "kind": "source-modified"}
        if r["probe"] != r["fresh"]:
            if isinstance(r["probe"], list) or isinstance(r["fresh"], list):
                return {"what": "the same read raises in one memo state and returns a pose in another", "kind": "history-dependent", "fields": ["raises"]}
            diff = [k for k in r["fresh"] if r["probe"].get(k) != r["fresh"][k]]
            return {"what": "the same read returns a different pose after the history (fields %s)" % diff, "kind": "history-dependent", "fields": diff}
        if r["changed"]:
            return {"what": "earlier results %s changed although only other poses were mutated / read" % r["changed"], "kind": "result-changed"}
        if r["shared"]:
            return {"what": "poses share mutable state: %s" % r["shared"][:4], "kind": "shared-" + ("header" if any(s[2] != "body" for s in r["shared"]) else "body")}
        return None

    def classify(self, case, f):
        k = f.get("kind", "other")
        f_, kind, args = case["probe"]
        if k == "history-dependent" and f_ == "A01" and kind == "stream" and args:
            # v0.1 frame count derived from the bytes fetched so far (prefetch length depends on the memo): C04's F4(i)
            return "history-dependent-v01-stream-window"
        return k


PROP = C06
