"""C06 - a read depends only on bytes and arguments, never on earlier reads or callers; results share no
mutable state."""
import copy as _copy

import numpy as np

import common
import posegen as pg
import translate_py


def mk_file(rng, names, pts, F, D, fill, allvalid=False):
    comps = []
    k = 0
    for i, n in enumerate(pts):
        comps.append({"name": pg.cps(names[i]), "format": pg.cps("XYZ"[:D] + "C"), "points": [pg.cps("p%d_%d" % (i, j)) for j in range(n)],
                      "limbs": [[0, max(0, n - 1)]] if n else [], "colors": [[10 * i, 1, 2]] if n else []})
    T = sum(pts)
    n = F * 1 * T * D
    case = {"dims": [100 + fill, 200, 0], "comps": comps, "fps": pg.b64(25.0), "shape": [F, 1, T, D], "cshape": [F, 1, T], "dtype": "f32",
            "edge": "none", "data": [pg.b64(float(fill * 1000 + i)) for i in range(n)],
            "conf": [pg.b64(0.0 if (i + fill) % 5 == 0 and not allvalid else 1.0) for i in range(F * T)]}
    w = pg.impl_write(case)
    assert w[0] == "ok", w
    return w[1]


MUTATORS = ["focus", "set_width", "new_dimensions", "rename_component", "rename_point", "append_limb", "edit_color", "pop_component",
            "write_body", "write_conf", "set_fps", "normalize_size", "mask_cell", "mask_all", "assign_mask"]


def apply_mutator(pose, name):
    h = pose.header
    if name == "focus":
        pose.focus()
    elif name == "set_width":
        h.dimensions.width = 7
        h.dimensions.height = 3
    elif name == "new_dimensions":
        from pose_format.pose_header import PoseHeaderDimensions
        h.dimensions = PoseHeaderDimensions(4, 3, 2)
    elif name == "rename_component":
        h.components[0].name = "RENAMED"
    elif name == "rename_point":
        for c in h.components:
            if c.points:
                c.points[0] = "RENAMED_POINT"
                break
    elif name == "append_limb":
        h.components[0].limbs.append((0, 0))
    elif name == "edit_color":
        for c in h.components:
            if len(c.colors):
                c.colors[0][0] = 999
                break
    elif name == "pop_component":
        if len(h.components) > 1:
            h.components.pop()
    elif name == "write_body":
        if pose.body.data.size:
            pose.body.data[...] = 12345.0
    elif name == "write_conf":
        if pose.body.confidence.size:
            pose.body.confidence[...] = 0.25
    elif name == "set_fps":
        pose.body.fps = 99.0
    elif name == "mask_cell":
        # marking a point missing in place, the numpy.ma way
        import numpy.ma as ma
        if pose.body.data.size:
            pose.body.data[0, 0, 0] = ma.masked
    elif name == "mask_all":
        import numpy.ma as ma
        if pose.body.data.size and ma.getmask(pose.body.data) is not ma.nomask:
            pose.body.data.mask[...] = True
    elif name == "assign_mask":
        if pose.body.data.size:
            m = np.zeros(pose.body.data.shape, dtype=bool)
            m[-1] = True
            pose.body.data.mask = m
    elif name == "normalize_size":
        # utils/generic.py normalize_pose_size writes header.dimensions.width/height in place
        h.dimensions.width = 1000
        h.dimensions.height = 1000


def header_objects(pose):
    h = pose.header
    objs = [("header", h), ("dimensions", h.dimensions), ("components", h.components)]
    for i, c in enumerate(h.components):
        objs += [("component%d" % i, c), ("points%d" % i, c.points), ("limbs%d" % i, c.limbs)]
        if isinstance(c.colors, (list, np.ndarray)):
            objs.append(("colors%d" % i, c.colors))
    return objs


class C06(common.Prop):
    ID = "C06"
    RUNNER = "codec"
    MODEL_FILES = ["model/PoseRead.v", "model/C06_Heap.v"]
    RULE = ("histories of 1..8 steps over five small files (same file; same header other body; shorter / equal-length / longer other "
            "header): reads (bytes or stream, full or windowed), in-place mutations of earlier results through every public mutator, "
            "copies; then a probe read. Each result is snapshotted when created and re-dumped at the end; the probe is compared with "
            "a read in a fresh memo state; object identity of every header sub-object and memory sharing of body arrays are compared "
            "pairwise. non-trivial = history contains a mutation or a read of a different file before the probe; distinct by content")
    TRUSTED = ["Coq 8.16.1 kernel", "harness/translate_py.py", "extraction: ExtrOcamlBasic only; runner/driver.ml",
               "harness/posegen.py dump / canonicalisers; id()- and np.shares_memory-based aliasing graph"]
    ASSUMPTIONS = ["hashlib.md5 is injective on the header slices compared", "copy.deepcopy produces an object graph disjoint from its argument"]

    def translate(self):
        return translate_py.codec_gen()

    def setup(self):
        import random
        r = random.Random(7)
        self.files = {
            "A": mk_file(r, ["body", "hand"], [3, 2], 4, 2, 1),
            "A2": mk_file(r, ["body", "hand"], [3, 2], 6, 2, 1),      # identical header, other body
            "B": mk_file(r, ["bo"], [2], 3, 2, 2),                     # shorter header
            "C": mk_file(r, ["body", "hand", "face_long_name"], [3, 2, 4], 3, 2, 3),   # longer header
            "D": mk_file(r, ["bodz", "hanb"], [3, 2], 4, 2, 4),       # equal-length header, different content
            "V": mk_file(r, ["body", "hand"], [3, 2], 4, 2, 5, allvalid=True),     # nothing missing anywhere (no zero confidence)
            "V2": mk_file(r, ["bo"], [5], 4, 2, 6, allvalid=True),                  # same body shape as V, nothing missing either
        }
        assert len(self.files["A"]) - 4 * 2 * 5 * 4 - 4 * 5 * 4 == len(self.files["D"]) - 4 * 2 * 5 * 4 - 4 * 5 * 4
        # legacy twin of A: byte-identical dimensions and components, version 0.1 and the v0.1 body layout
        a = self.files["A"]
        import struct as _st
        hdr_len = len(a) - 10 - 4 * 4 * 5 * 3          # F=4, P=1, T=5, D=2: data 4*(F*T*D) + conf 4*(F*T) bytes after the 10 info bytes
        assert hdr_len > 0
        v01 = list(_st.pack("<f", 0.1)) + a[4:hdr_len] + list(_st.pack("<HHH", 25, 4, 1)) + a[hdr_len + 10:]
        self.files["A01"] = v01
        self.names = sorted(self.files)

    def gen_cases(self, rng, tier):
        n = 250 if tier == "quick" else 4000
        for _ in range(n):
            steps = []
            nres = 0
            for _ in range(rng.randrange(1, 9)):
                r = rng.random()
                if nres == 0 or r < 0.45:
                    f = rng.choice(self.names)
                    args = rng.choice([{}, {}, {"start_frame": 1}, {"end_frame": 2}, {"start_frame": 1, "end_frame": 3}])
                    steps.append(["read", f, rng.choice(["bytes", "bytes", "stream"]), args])
                    nres += 1
                elif r < 0.85:
                    steps.append(["mutate", rng.randrange(nres), rng.choice(MUTATORS)])
                else:
                    steps.append(["copy", rng.randrange(nres)])
                    nres += 1
            probe = [rng.choice(self.names), rng.choice(["bytes", "bytes", "stream"]),
                     rng.choice([{}, {}, {"start_frame": 1, "end_frame": 2}])]
            yield {"steps": steps, "probe": probe}

    def features(self, case):
        kinds = sorted(set(s[0] for s in case["steps"]))
        muts = sorted(set(s[2] for s in case["steps"] if s[0] == "mutate"))
        return ("+".join(kinds), len(case["steps"]), muts[0] if muts else "-", case["probe"][1])

    def nontrivial(self, case):
        return any(s[0] == "mutate" for s in case["steps"]) or len(set(s[1] for s in case["steps"] if s[0] == "read")) > 1

    # ---------------------------------------------------------------- implementation
    def _read(self, fname, kind, args):
        from pose_format import Pose
        import io
        data = bytes(self.files[fname])
        a = {k: v for k, v in args.items()}
        return Pose.read(data if kind == "bytes" else io.BytesIO(data), **a)

    def run_impl(self, case):
        from pose_format.pose_header import PoseHeaderCache
        PoseHeaderCache.clear_cache()
        results = []       # (pose, snapshot after creation / own mutations, mutated?)
        for st in case["steps"]:
            if st[0] == "read":
                try:
                    p = self._read(st[1], st[2], st[3])
                except Exception as e:          # a read that raises hands nothing out (the slot stays, so indexes keep their meaning)
                    results.append([None, ["err", type(e).__name__], ("read", st[1], st[2], st[3])])
                    continue
                results.append([p, pg.dump_pose(p), ("read", st[1], st[2], st[3])])
            elif st[0] == "copy":
                if results[st[1]][0] is None:
                    results.append([None, ["err", "no-source"], ("copy", st[1])])
                    continue
                p = results[st[1]][0].copy()
                results.append([p, pg.dump_pose(p), ("copy", st[1])])
            elif results[st[1]][0] is not None:
                try:
                    apply_mutator(results[st[1]][0], st[2])
                except Exception:       # an operation that refuses this pose (focus on a pose without observed points): whatever it
                    pass                # did before raising is still the owner's own change
                results[st[1]][1] = pg.dump_pose(results[st[1]][0])

        def safe_probe():
            try:
                pp = self._read(*case["probe"])
                return pp, pg.dump_pose(pp)
            except Exception as e:
                return None, ["err"]
        probe, probe_dump = safe_probe()
        # what the same read returns in a fresh process state
        PoseHeaderCache.clear_cache()
        fresh = safe_probe()[1]
        # every earlier result must still be what it was after its own last mutation
        changed = [i for i, (p, snap, _) in enumerate(results) if p is not None and pg.dump_pose(p) != snap]
        # aliasing graph
        shared = []
        allp = [r[0] for r in results if r[0] is not None] + ([probe] if probe is not None else [])
        for i in range(len(allp)):
            for j in range(i + 1, len(allp)):
                ids_i = {id(o): n for n, o in header_objects(allp[i])}
                for n, o in header_objects(allp[j]):
                    if id(o) in ids_i:
                        shared.append([i, j, n])
                bi, bj = allp[i].body, allp[j].body
                import numpy.ma as ma
                mi, mj = ma.getmask(bi.data), ma.getmask(bj.data)
                if np.shares_memory(np.asarray(bi.data.data), np.asarray(bj.data.data)) or \
                        np.shares_memory(np.asarray(bi.confidence), np.asarray(bj.confidence)) or \
                        (mi is not ma.nomask and mj is not ma.nomask and np.shares_memory(mi, mj)):
                    shared.append([i, j, "body"])
        case["_impl"] = {"probe": probe_dump, "fresh": fresh, "changed": changed, "shared": shared}
        return {"probe": probe_dump}

    # ---------------------------------------------------------------- model
    def run_model(self, case, runner):
        # value-level model of the probe: Pose.read in the memo state left by the history's reads (mutations and copies
        # cannot reach the memo in the model: the memo owns a private copy)
        files = [self.files[n] for n in self.names]
        ops = []
        for st in case["steps"]:
            if st[0] == "read":
                ops.append([self.names.index(st[1]), 0 if st[2] == "bytes" else 1, pg.args_tree(st[3])])
        f, kind, args = case["probe"]
        if f == "A01":
            return None          # the byte-layer runner has no legacy decoders: v0.1 probes are judged by the oracle only
        ops.append([self.names.index(f), 0 if kind == "bytes" else 1, pg.args_tree(args)])
        rep = runner.ask([5, files, ops])
        r = pg.result_of_tree(rep[-1][0], pg.pose_of_tree)
        return {"probe": r[1] if r[0] == "ok" else ["err"]}

    def compare(self, case, io, mo):
        return None if io == mo else "probe read differs from the model's history-threaded read"

    # ---------------------------------------------------------------- oracle
    def oracle(self, case):
        r = case["_impl"]
        if r["probe"] != r["fresh"]:
            if isinstance(r["probe"], list) or isinstance(r["fresh"], list):
                return {"what": "the same read raises in one memo state and returns a pose in another", "kind": "history-dependent", "fields": ["raises"]}
            diff = [k for k in r["fresh"] if r["probe"].get(k) != r["fresh"][k]]
            return {"what": "the same read returns a different pose after the history (fields %s)" % diff, "kind": "history-dependent", "fields": diff}
        if r["changed"]:
            return {"what": "earlier results %s changed although only other poses were mutated / read" % r["changed"], "kind": "result-changed"}
        if r["shared"]:
            return {"what": "poses share mutable state: %s" % r["shared"][:4], "kind": "shared-" + ("header" if any(s[2] != "body" for s in r["shared"]) else "body")}
        return None

    def classify(self, case, f):
        k = f.get("kind", "other")
        f_, kind, args = case["probe"]
        if k == "history-dependent" and f_ == "A01" and kind == "stream" and args:
            # v0.1 frame count derived from the bytes fetched so far (prefetch length depends on the memo): C04's F4(i)
            return "history-dependent-v01-stream-window"
        return k


PROP = C06
