"""C17 - feature representations equal their geometric definition on every backend.

Two kinds of cases:
  cell    one representation (distance / X-Y angle / inner angle / point-line distance) on point tensors of shape
          (points, batch, len, 2|3): Torch (masked), TensorFlow (plain, fed the zero-filled values), NumPy (masked,
          distance only) against the extracted model (binary64) and - in the oracle - against float64 reference
          formulas written here (the point-line distance reference is the perpendicular-foot formula, not Heron).
  layout  the assembled Torch/TensorFlow PoseRepresentation on a generated header: advertised size, output shape,
          and every block compared with the reference formula evaluated on the points the header implies.
Numeric comparisons use a relative tolerance of 1e-4 (float32 Heron / acos lose about 2e-5) on well-conditioned
cells; on ill-conditioned cells (near-collinear triples, |cos| > 0.999) only the exact clauses are checked."""
import math
import os
import warnings

import numpy as np

import common
import translate_c17

warnings.simplefilter("ignore")

TOL = 1e-4
FN = ["distance", "angle", "inner_angle", "point_line_distance"]
GARBAGE = [float("nan"), float("inf"), float("-inf"), 1e30, -1e30, 0.0, 1e-30]


def f32(a):
    return np.asarray(a, dtype=np.float32)


def words32(a):
    return [int(x) for x in f32(a).reshape(-1).view(np.uint32)]


def from_words32(w, shape):
    return np.array(w, dtype=np.uint32).view(np.float32).reshape(shape)


def words64_of32(a):
    return [int(x) for x in np.asarray(a, dtype=np.float32).astype(np.float64).reshape(-1).view(np.uint64)]


def from_words64(w):
    return np.array(w, dtype=np.uint64).view(np.float64)


# ------------------------------------------------------------------------------------------------
# float64 reference formulas + conditioning (independent of the Coq model)
def ref_distance(p1, p2):
    return np.sqrt(((p1 - p2) ** 2).sum(-1)), np.ones(p1.shape[:-1], bool), np.zeros(p1.shape[:-1], bool)


def ref_angle(p1, p2):
    d = p2 - p1
    dx, dy = d[..., 0], d[..., 1]
    deg = dx == 0
    with np.errstate(all="ignore"):
        v = np.arctan(dy / np.where(deg, 1.0, dx))
    return v, ~deg, deg


def ref_inner(p1, p2, p3):
    v1, v2 = p1 - p2, p3 - p2
    n1, n2 = np.sqrt((v1 * v1).sum(-1)), np.sqrt((v2 * v2).sum(-1))
    deg = (n1 == 0) | (n2 == 0)
    with np.errstate(all="ignore"):
        c = (v1 * v2).sum(-1) / np.where(deg, 1.0, n1 * n2)
        v = np.arccos(np.clip(c, -1, 1))
    scale = np.maximum(np.abs(p1).max(-1), np.maximum(np.abs(p2).max(-1), np.abs(p3).max(-1))) + 1e-30
    well = ~deg & (np.abs(c) <= 0.999) & (np.minimum(n1, n2) >= 1e-3 * scale)
    return v, well, deg


def ref_pld(p1, p2, p3):
    u, w = p1 - p2, p3 - p2
    ww = (w * w).sum(-1)
    deg = ww == 0
    with np.errstate(all="ignore"):
        t = (u * w).sum(-1) / np.where(deg, 1.0, ww)
        foot = u - t[..., None] * w
        v = np.sqrt((foot * foot).sum(-1))
    a = np.sqrt((u * u).sum(-1))
    b = np.sqrt(ww)
    c = np.sqrt(((p1 - p3) ** 2).sum(-1))
    s = (a + b + c) / 2
    with np.errstate(all="ignore"):
        r = np.minimum(np.minimum(s - a, s - b), s - c) / np.where(s == 0, 1.0, s)
        well = ~deg & (r >= 0.01) & (b / np.where(s == 0, 1.0, s) >= 1e-3)
    return v, well, deg


REF = [ref_distance, ref_angle, ref_inner, ref_pld]


def close(a, b, tol=TOL, slack=1e-6):
    if math.isnan(a) or math.isnan(b):
        return math.isnan(a) and math.isnan(b)
    if math.isinf(a) or math.isinf(b):
        return a == b
    return abs(a - b) <= tol * max(abs(a), abs(b)) + slack


def slack_of(case):
    """absolute slack of a comparison: 1e-6 for angles (scale-free), 1e-6 x the figure's size for the two distances"""
    return 1e-6 * (2.0 ** case.get("sexp", 0) if case.get("fn") in (0, 3) else 1.0)


# ------------------------------------------------------------------------------------------------
class C17(common.Prop):
    ID = "C17"
    RUNNER = "c17"
    RUNNER_FLOATS = True
    ALLOWED_AXIOMS = set(common.REALS_AXIOMS)
    MODEL_FILES = ["model/C17_Repr.v", "model/C17_Layout.v", "model/C17_XReal.v", "model/C17_Spec.v", "model/C17_FTrans.v",
                   "model/C17_Run.v", "model/C17_Source.v"]
    RULE = ("cell cases: point tensors (points, batch, len, 2|3) mostly > 1 on every axis, coordinates on a 1/4 grid or uniform, "
            "~30% of the cells overridden with a degenerate configuration (coincident points, vertical / horizontal limbs, "
            "collinear triples, zero-length base), masks none / per point / per coordinate / everything, NaN, +-inf, +-1e30 "
            "and degenerate finite values under the mask; three backends against the binary64 model with relative tolerance "
            "1e-4 on well-conditioned cells (exact clauses - zero under the mask, finiteness - on all cells). layout cases: "
            "1..3 components, limb chains present / absent / out of range, 0..2 modules per group, channel count equal / "
            "different from the format length. non-trivial = at least one valid non-degenerate cell or a constructible "
            "representation; distinct by content hash " "Figures of size 2^-20 .. 2^7; Torch inputs contiguous, transposed-storage or strided.")
    TRUSTED = ["Coq 8.16.1 kernel", "harness/translate_c17.py (fail-closed ast translator)",
               "extraction: ExtrOcamlBasic, ExtrOCamlFloats, ExtrOCamlInt63; runner/driver.ml",
               "harness/c17.py: float64 reference formulas, conditioning rule, tolerance 1e-4",
               "model/C17_FTrans.v: binary64 atan/acos used only in the executed instance (sampled by the correspondence)"]
    ASSUMPTIONS = ["theorems are over exact reals (R_ops) and over IEEE special values with exact finite arithmetic (X_ops): "
                   "rounding, overflow, underflow and signed zero are not modelled; the correspondence is tolerance-based",
                   "atan / acos are universally quantified functions with their defining properties as hypotheses",
                   "numpy.ma's rule 'result not finite => masked' (ma.power, ma.sqrt) is not modelled: it cannot fire on finite valid "
                   "coordinates in exact arithmetic",
                   "Torch / TensorFlow kernels (sub, pow, sum, sqrt, div, where, atan, acos, permute, index_select, cat, gather) are "
                   "modelled, not verified"]

    def translate(self):
        return translate_c17.gen()

    def translate_outputs(self):
        return ["gen/Gen_C17.v"]

    # ---------------------------------------------------------------------------------------- setup
    def setup(self):
        import torch
        import tensorflow as tf
        import numpy.ma as ma
        from pose_format.torch.masked.tensor import MaskedTensor
        from pose_format.torch.representation import angle as t_angle, distance as t_distance, inner_angle as t_inner, \
            point_line_distance as t_pld, points as t_points
        from pose_format.tensorflow.representation import angle as f_angle, distance as f_distance, inner_angle as f_inner, \
            point_line_distance as f_pld
        from pose_format.numpy.representation.distance import DistanceRepresentation as NpDistance
        from pose_format.pose_header import PoseHeader, PoseHeaderComponent, PoseHeaderDimensions
        from pose_format.torch.pose_representation import TorchPoseRepresentation
        from pose_format.tensorflow.pose_representation import TensorflowPoseRepresentation
        self.torch, self.tf, self.ma, self.MaskedTensor = torch, tf, ma, MaskedTensor
        self.t_mods = [t_distance.DistanceRepresentation, t_angle.AngleRepresentation, t_inner.InnerAngleRepresentation,
                       t_pld.PointLineDistanceRepresentation]
        self.t_points = t_points.PointsRepresentation
        self.f_mods = [f_distance.DistanceRepresentation, f_angle.AngleRepresentation, f_inner.InnerAngleRepresentation,
                       f_pld.PointLineDistanceRepresentation]
        self.np_distance = NpDistance
        self.PoseHeader, self.PoseHeaderComponent, self.PoseHeaderDimensions = PoseHeader, PoseHeaderComponent, PoseHeaderDimensions
        self.TorchRepr, self.TfRepr = TorchPoseRepresentation, TensorflowPoseRepresentation
        torch.set_num_threads(1)

    # ---------------------------------------------------------------------------------------- generator
    def gen_cases(self, rng, tier):
        n_cell, n_lay = (260, 90) if tier == "quick" else (24000, 8000)
        for i in range(n_cell):
            yield self.gen_cell(rng, i)
        for i in range(n_lay):
            yield self.gen_layout(rng, i)

    def _coords(self, rng, n, D, grid):
        if grid:
            return f32([[rng.randrange(-8, 9) / 4.0 for _ in range(D)] for _ in range(n)])
        return f32([[rng.uniform(-2, 2) for _ in range(D)] for _ in range(n)])

    def gen_cell(self, rng, i):
        fn = i % 4
        if rng.random() < 0.12:
            P, B, L = rng.randrange(1, 4), rng.randrange(1, 3), rng.randrange(1, 4)
        else:
            P, B, L = rng.randrange(2, 5), rng.randrange(2, 4), rng.randrange(2, 5)
        D = rng.choice([2, 3])
        n = P * B * L
        grid = rng.random() < 0.5
        pts = [self._coords(rng, n, D, grid) for _ in range(3)]
        tags = set()
        for c in range(n):
            if rng.random() < 0.3:
                k = rng.choice(["coincident12", "coincident23", "coincident13", "vertical", "horizontal", "collinear", "collinear_mid",
                                "all_equal"])
                tags.add(k)
                if k == "coincident12":
                    pts[1][c] = pts[0][c]
                elif k == "coincident23":
                    pts[2][c] = pts[1][c]
                elif k == "coincident13":
                    pts[2][c] = pts[0][c]
                elif k == "vertical":
                    pts[1][c][0] = pts[0][c][0]
                elif k == "horizontal":
                    pts[1][c][1] = pts[0][c][1]
                elif k == "collinear":          # p3 beyond p2 on the line p1 p2
                    pts[2][c] = f32(2 * pts[1][c].astype(np.float64) - pts[0][c])
                elif k == "collinear_mid":      # p1 between p2 and p3
                    pts[0][c] = f32((pts[1][c].astype(np.float64) + pts[2][c]) / 2)
                else:
                    pts[1][c] = pts[0][c]
                    pts[2][c] = pts[0][c]
        # overall size of the figure: the definitions are homogeneous (angles scale-free, distances linear), so a figure of size
        # 2^-20 is as non-degenerate as one of size 1 (exact scaling by a power of two; squares stay far above the float32
        # underflow threshold)
        sexp = rng.choice([0, 0, 0, 0, -10, -20, -20, 7])
        if sexp:
            pts = [f32(x.astype(np.float64) * 2.0 ** sexp) for x in pts]
        mode = rng.choice(["none", "points", "points", "points", "partial", "all"])
        valid = []
        for t in range(3):
            if mode == "none":
                v = np.ones((n, D), bool)
            elif mode == "points":
                v = np.repeat(np.array([rng.random() < 0.75 for _ in range(n)], bool)[:, None], D, axis=1)
            elif mode == "partial":
                v = np.array([[rng.random() < 0.8 for _ in range(D)] for _ in range(n)], bool)
            else:
                v = np.zeros((n, D), bool)
            valid.append(v)
        garbage = set()
        for t in range(3):
            for c in range(n):
                for d in range(D):
                    if not valid[t][c][d] and rng.random() < 0.6:
                        g = rng.choice(GARBAGE)
                        garbage.add("nan" if g != g else ("inf" if math.isinf(g) else ("huge" if abs(g) > 1 else "tiny")))
                        pts[t][c][d] = g
        malformed = False
        if mode == "none" and rng.random() < 0.06:   # separate malformed stream: non-finite VALID coordinates
            malformed = True
            t, c, d = rng.randrange(3 if fn >= 2 else 2), rng.randrange(n), rng.randrange(D)
            pts[t][c][d] = rng.choice([float("nan"), float("inf")])
        return {"kind": "cell", "fn": fn, "sexp": sexp, "shape": [P, B, L, D], "p": [words32(x) for x in pts],
                "v": [[int(b) for b in v.reshape(-1)] for v in valid], "mode": mode, "grid": grid,
                "tags": sorted(tags), "garbage": sorted(garbage), "malformed": malformed}

    def gen_layout(self, rng, i):
        backend = "torch" if i % 3 != 2 else "tf"
        D = rng.choice([2, 3])
        ncomp = rng.randrange(1, 4)
        flavour = rng.choice(["chain"] * 8 + ["nochain", "nolimbs", "oob", "nocomp", "perm", "perm"])
        comps = []
        if flavour == "perm":
            # limb lists are in no particular order: the first (and the second) end points of the limbs are each a SHUFFLED run of
            # consecutive point indexes - every limb, and every triple built from them, keeps its own position in the output
            npts = rng.randrange(3, 7)
            a, b = list(range(npts)), list(range(npts))
            rng.shuffle(a)
            rng.shuffle(b)
            k = rng.randrange(2, npts + 1)
            comps.append([npts, D, [[x, y] for x, y in zip(a[:k], b[:k])]])
            if rng.random() < 0.4:
                comps.append([rng.randrange(1, 4), D, []])
        elif flavour != "nocomp":
            for ci in range(ncomp):
                npts = rng.randrange(1, 6)
                nfmt = D if rng.random() < 0.85 else rng.choice([D + 1, max(1, D - 1)])
                limbs = []
                if flavour in ("chain", "oob") and npts >= 2:
                    for _ in range(rng.randrange(0, 5)):
                        limbs.append([rng.randrange(npts), rng.randrange(npts)])
                elif flavour == "nochain" and npts >= 2:
                    limbs = [[0, 1]] if rng.random() < 0.7 else []
                comps.append([npts, nfmt, limbs])
            if flavour == "chain":
                # make sure there is a chain in some component with >= 3 points, else a self-loop chain
                big = [c for c in comps if c[0] >= 3]
                if big:
                    c = rng.choice(big)
                    a, b, d = rng.sample(range(c[0]), 3)
                    c[2] += [[a, b], [b, d]]
                else:
                    comps[0][2] += [[0, 0]]
            if flavour == "oob":
                c = rng.choice(comps)
                c[2] += [[0, c[0] + rng.randrange(0, 3)], [c[0] + 0, 0], [0, 0]]
        P = sum(c[0] for c in comps)
        k = [rng.choice([0, 1, 1, 2]), rng.choice([0, 1, 2, 2]), rng.choice([0, 1, 2, 2])]
        if rng.random() < 0.04:
            k = [0, 0, 0]
        if backend == "tf":
            k[0] = min(k[0], 1)
        mods = [[0] * k[0], [rng.randrange(2) for _ in range(k[1])], [rng.randrange(2) for _ in range(k[2])]]
        B, L = rng.randrange(1, 4), rng.randrange(1, 4)
        n = B * L * P
        data = self._coords(rng, max(n, 0), D, False) if n else f32(np.zeros((0, D)))
        if backend == "torch" and rng.random() < 0.6:
            valid = np.repeat(np.array([rng.random() < 0.8 for _ in range(n)], bool)[:, None], D, axis=1) if n else np.zeros((0, D), bool)
            for c in range(n):
                if not valid[c][0] and rng.random() < 0.5:
                    data[c][rng.randrange(D)] = rng.choice(GARBAGE)
        else:
            valid = np.ones((n, D), bool)
        mem = rng.choice(["contiguous"] * 6 + ["channel_first", "channel_first", "time_major"]) if backend == "torch" else "contiguous"
        return {"kind": "layout", "backend": backend, "header": comps, "mods": mods, "B": B, "L": L, "P": P, "D": D,
                "data": words32(data), "valid": [int(b) for b in valid.reshape(-1)], "flavour": flavour, "mem": mem}

    def features(self, case):
        if case["kind"] == "cell":
            P, B, L, D = case["shape"]
            return ("cell", FN[case["fn"]], D, case.get("mode"), "gt1" if min(P, B, L) > 1 else "has1",
                    "garbage" if case.get("garbage") else "clean", "degenerate" if case.get("tags") else "generic", "2^%d" % case.get("sexp", 0),
                    "malformed" if case.get("malformed") else "ok")
        return ("layout", case["backend"], case.get("flavour"), case.get("mem", "contiguous"), len(case["header"]), tuple(len(m) for m in case["mods"]),
                "D=fmt" if case["header"] and case["header"][0][1] == case["D"] else "D!=fmt")

    def nontrivial(self, case):
        if case["kind"] == "cell":
            return case.get("mode") != "all" and not case.get("malformed")
        return case.get("flavour") in ("chain", "oob") and sum(len(m) for m in case["mods"]) > 0

    # ---------------------------------------------------------------------------------------- cell: implementation
    def _cell_arrays(self, case):
        P, B, L, D = case["shape"]
        pts = [from_words32(w, (P, B, L, D)) for w in case["p"]]
        valid = [np.array(v, dtype=bool).reshape(P, B, L, D) for v in case["v"]]
        return pts, valid

    def _guard(self, f):
        try:
            out = f()
            return ("ok", [float(x) for x in np.asarray(out, dtype=np.float64).reshape(-1)], list(np.asarray(out).shape))
        except Exception as e:   # noqa: BLE001 - errors are one class
            return ("err", type(e).__name__ + ": " + str(e)[:120])

    def run_cell_impl(self, case):
        torch, tf, ma = self.torch, self.tf, self.ma
        pts, valid = self._cell_arrays(case)
        fn = case["fn"]
        nargs = 2 if fn < 2 else 3
        out = {}

        def t_run():
            lay = sum(case["shape"]) + len(case.get("tags") or [])
            args = [self.MaskedTensor(common.vary_torch(torch.tensor(pts[i].copy()), lay + i), common.vary_torch(torch.tensor(valid[i].copy()), lay + i + 1))
                    for i in range(nargs)]
            return self.t_mods[fn]()(*args).numpy()
        out["torch"] = self._guard(t_run)

        def f_run():
            args = [tf.constant(np.where(valid[i], pts[i], np.float32(0))) for i in range(nargs)]
            return self.f_mods[fn]()(*args).numpy()
        out["tf"] = self._guard(f_run)
        if fn == 0:
            def n_run():
                args = [ma.array(pts[i].copy(), mask=~valid[i]) for i in range(2)]
                return self.np_distance()(*args)
            out["numpy"] = self._guard(n_run)
        return out

    def run_impl(self, case):
        if case["kind"] == "cell":
            out = self.run_cell_impl(case)
        else:
            out = self.run_layout_impl(case)
        case["_impl"] = out
        return out

    # ---------------------------------------------------------------------------------------- cell: model
    def run_model(self, case, runner):
        if case["kind"] == "layout":
            return self.run_layout_model(case, runner)
        P, B, L, D = case["shape"]
        fn = case["fn"]
        nargs = 2 if fn < 2 else 3
        req = [1, fn, D]
        for i in range(3):
            if i < nargs:
                req += [words64_of32(from_words32(case["p"][i], (-1,))), list(case["v"][i])]
            else:
                req += [[], []]
        rep = runner.ask(req)
        out = {"torch": [float(x) for x in from_words64(rep[0])], "tf": [float(x) for x in from_words64(rep[1])]}
        if fn == 0:
            out["numpy"] = [float(x) for x in from_words64(rep[2])]
        return out

    # ---------------------------------------------------------------------------------------- cell: classification of cells
    def cell_classes(self, case):
        """per cell: missing (some input point wholly invalid), anyinvalid (torch mask rule), well (valid, non-degenerate,
        well-conditioned), reference value"""
        pts, valid = self._cell_arrays(case)
        fn = case["fn"]
        nargs = 2 if fn < 2 else 3
        P, B, L, D = case["shape"]
        p64 = [np.where(valid[i], pts[i], 0).astype(np.float64) for i in range(nargs)]
        with np.errstate(all="ignore"):
            ref, well, deg = REF[fn](*p64)
        missing = np.zeros((P, B, L), bool)
        anyinv = np.zeros((P, B, L), bool)
        allinv = np.zeros((P, B, L), bool)
        for i in range(nargs):
            missing |= ~valid[i].any(-1)
            allinv |= ~valid[i].any(-1)
            anyinv |= ~(valid[i][..., :2].all(-1) if fn == 1 else valid[i].all(-1))
        allvalid = np.ones((P, B, L), bool)
        nonfinite = np.zeros((P, B, L), bool)
        for i in range(nargs):
            allvalid &= valid[i].all(-1)
            nonfinite |= (valid[i] & ~np.isfinite(pts[i])).any(-1)
        return {"ref": ref.reshape(-1), "well": (well & allvalid).reshape(-1), "well_raw": well.reshape(-1), "deg": deg.reshape(-1),
                "nonfinite": nonfinite.reshape(-1), "missing": missing.reshape(-1), "torch_zero": anyinv.reshape(-1), "allvalid": allvalid.reshape(-1)}

    def compare(self, case, impl_out, model_out):
        if case["kind"] == "layout":
            return self.compare_layout(case, impl_out, model_out)
        cl = self.cell_classes(case)
        n = len(cl["ref"])
        for be, mo in model_out.items():
            io = impl_out.get(be)
            if io is None:
                continue
            if io[0] != "ok":
                return "%s %s raises (%s), the model returns values" % (be, FN[case["fn"]], io[1])
            if len(io[1]) != len(mo) or len(mo) != n:
                return "%s %s: %d cells from the implementation, %d from the model, %d expected" % (be, FN[case["fn"]], len(io[1]), len(mo), n)
            if io[2] != list(case["shape"][:3]):
                return "%s %s: output shape %s, expected %s" % (be, FN[case["fn"]], io[2], case["shape"][:3])
            fn = case["fn"]
            for c in range(n):
                a, b = io[1][c], mo[c]
                if cl["nonfinite"][c]:
                    # malformed stream (a non-finite VALID coordinate in this cell): only the NaN / non-NaN class is
                    # compared, on torch and tf (numpy.ma's not-finite rules are not modelled)
                    if be != "numpy" and math.isnan(a) != math.isnan(b):
                        return "%s %s cell %d (non-finite valid coordinate): implementation %r, model %r" % (be, FN[fn], c, a, b)
                    continue
                if be == "torch":
                    if cl["torch_zero"][c]:
                        if not (a == 0 and b == 0):
                            return "torch %s cell %d is under the mask: implementation %r, model %r (both must be 0)" % (FN[fn], c, a, b)
                        continue
                    comparable = fn in (0, 1) or cl["well_raw"][c] or cl["deg"][c]
                elif be == "tf":
                    comparable = fn in (0, 1) or cl["well_raw"][c] or cl["deg"][c]
                else:
                    comparable = True
                if comparable and not close(a, b, slack=slack_of(case)):
                    return "%s %s cell %d: implementation %r, model %r (tolerance %g)" % (be, FN[fn], c, a, b, TOL)
        return None

    # ---------------------------------------------------------------------------------------- cell: oracle
    def oracle(self, case):
        if case["kind"] == "layout":
            return self.oracle_layout(case)
        if case.get("malformed"):
            return None          # outside the quantifier: valid coordinates must be finite
        impl = case.get("_impl") or self.run_cell_impl(case)
        cl = self.cell_classes(case)
        fn = case["fn"]
        n = len(cl["ref"])
        for be in ("torch", "tf", "numpy"):
            io = impl.get(be)
            if io is None:
                continue
            if io[0] != "ok":
                return {"what": "%s %s raises %s" % (be, FN[fn], io[1]), "backend": be, "clause": "raises", "fn": FN[fn]}
            if io[2] != list(case["shape"][:3]):
                return {"what": "%s %s returns shape %s for input %s" % (be, FN[fn], io[2], case["shape"]), "backend": be, "clause": "shape", "fn": FN[fn]}
            vals = io[1]
            for c in range(n):
                x = vals[c]
                if be in ("torch", "numpy"):
                    if cl["missing"][c] and not x == 0:
                        return {"what": "%s %s returns %r where an input point is missing (must be exactly 0)" % (be, FN[fn], x),
                                "backend": be, "clause": "masked_zero", "fn": FN[fn], "cell": c, "under_mask": True}
                    if math.isnan(x) or math.isinf(x):
                        return {"what": "%s %s returns %r (never NaN / infinity)" % (be, FN[fn], x), "backend": be, "clause": "never_nan",
                                "fn": FN[fn], "cell": c, "under_mask": bool(cl["missing"][c] or not cl["allvalid"][c])}
                if cl["well"][c] and not close(x, float(cl["ref"][c]), slack=slack_of(case)):
                    return {"what": "%s %s = %r, textbook formula (float64) = %r" % (be, FN[fn], x, float(cl["ref"][c])), "backend": be,
                            "clause": "formula", "fn": FN[fn], "cell": c}
        # cross-backend agreement on well-conditioned cells
        oks = {be: io[1] for be, io in impl.items() if io[0] == "ok"}
        for c in range(n):
            if cl["well"][c]:
                vs = [(be, v[c]) for be, v in sorted(oks.items())]
                for (b1, x1) in vs:
                    for (b2, x2) in vs:
                        if not close(x1, x2, 2 * TOL, slack=slack_of(case)):
                            return {"what": "%s: %s gives %r, %s gives %r" % (FN[fn], b1, x1, b2, x2), "backend": b1 + "/" + b2,
                                    "clause": "cross_backend", "fn": FN[fn], "cell": c}
        return None

    # ---------------------------------------------------------------------------------------- layout
    def _layout_arrays(self, case):
        B, L, P, D = case["B"], case["L"], case["P"], case["D"]
        data = from_words32(case["data"], (B, L, P, D))
        valid = np.array(case["valid"], dtype=bool).reshape(B, L, P, D)
        return data, valid

    def _header(self, case):
        comps = []
        for ci, (npts, nfmt, limbs) in enumerate(case["header"]):
            comps.append(self.PoseHeaderComponent("c%d" % ci, ["p%d" % j for j in range(npts)], [tuple(l) for l in limbs],
                                                  [(0, 0, 0)] * max(1, len(limbs)), "XYZCWV"[:nfmt]))
        return self.PoseHeader(version=0.2, dimensions=self.PoseHeaderDimensions(1, 1, 1), components=comps)

    def run_layout_impl(self, case):
        torch, tf = self.torch, self.tf
        data, valid = self._layout_arrays(case)
        B, L, P, D = case["B"], case["L"], case["P"], case["D"]
        m1, m2, m3 = case["mods"]
        try:
            header = self._header(case)
            if (B + L + P + len(case["header"])) % 2 == 0 and len(case["header"]) >= 2:
                # the header OBJECT was used before, with its components in the reverse order (same limbs, same counts): a
                # representation is built from it, then the component list is reversed in place - the representation under test
                # must follow the header as it is NOW
                header.components.reverse()
                try:
                    if case["backend"] == "torch":
                        self.TorchRepr(header, rep_modules1=[], rep_modules2=[self.t_mods[0]()], rep_modules3=[self.t_mods[2]()])
                    else:
                        self.TfRepr(header, rep_modules1=[], rep_modules2=[self.f_mods[0]()], rep_modules3=[self.f_mods[2]()])
                except Exception:
                    pass
                header.components.reverse()
            if case["backend"] == "torch":
                rep = self.TorchRepr(header, rep_modules1=[self.t_points() for _ in m1], rep_modules2=[self.t_mods[k]() for k in m2],
                                     rep_modules3=[self.t_mods[k + 2]() for k in m3])
            else:
                flat = (lambda points: tf.reshape(tf.transpose(points, [0, 3, 1, 2]), (-1, B, L)))
                rep = self.TfRepr(header, rep_modules1=[flat for _ in m1], rep_modules2=[self.f_mods[k]() for k in m2],
                                  rep_modules3=[self.f_mods[k + 2]() for k in m3])
        except Exception as e:   # noqa: BLE001
            return {"status": "ctor_err", "err": type(e).__name__ + ": " + str(e)[:160]}
        adv = int(rep.output_size)
        try:
            if case["backend"] == "torch":
                mem = case.get("mem", "contiguous")
                if mem == "channel_first":      # stored (B, L, D, P), viewed (B, L, P, D): same values, other strides
                    mk = lambda a: torch.tensor(np.ascontiguousarray(a.transpose(0, 1, 3, 2))).transpose(2, 3)
                elif mem == "time_major":       # stored (L, B, P, D)
                    mk = lambda a: torch.tensor(np.ascontiguousarray(a.transpose(1, 0, 2, 3))).transpose(0, 1)
                else:
                    mk = lambda a: torch.tensor(a.copy())
                src = self.MaskedTensor(mk(data), mk(valid))
                out = rep(src)
                out = out.numpy()
            else:
                out = rep(tf.constant(np.where(valid, data, np.float32(0)))).numpy()
        except Exception as e:   # noqa: BLE001
            return {"status": "call_err", "advertised": adv, "err": type(e).__name__ + ": " + str(e)[:160]}
        return {"status": "ok", "advertised": adv, "shape": list(out.shape),
                "values": [float(x) for x in np.asarray(out, dtype=np.float64).reshape(-1)]}

    def run_layout_model(self, case, runner):
        data = from_words32(case["data"], (-1,))
        req = [2, 0 if case["backend"] == "torch" else 1, [[c[0], c[1], [list(l) for l in c[2]]] for c in case["header"]],
               list(case["mods"][0]), list(case["mods"][1]), list(case["mods"][2]), case["B"], case["L"], case["P"], case["D"],
               words64_of32(data), list(case["valid"])]
        rep = runner.ask(req)
        if rep[0] == 0:
            return {"status": "ctor_err"} if rep[1] == 0 else {"status": "call_err", "advertised": rep[2]}
        return {"status": "ok", "advertised": rep[1], "size": rep[2], "values": [float(x) for x in from_words64(rep[3])]}

    def layout_reference(self, case):
        """independent float64 reference of the whole output: (values, wellcond, missing) of shape (B, L, E), and E -
        positions from the header alone (cumulative point offsets, chains by a double loop)"""
        data, valid = self._layout_arrays(case)
        B, L, P, D = case["B"], case["L"], case["P"], case["D"]
        m1, m2, m3 = case["mods"]
        off, limbs = 0, []
        for npts, _, ls in case["header"]:
            for a, b in ls:
                limbs.append((off + a, off + b))
            off += npts
        tris = [(a, b, d) for (a, b) in limbs for (c, d) in limbs if b == c]
        z = np.where(valid, data, 0).astype(np.float64)
        pv = valid.all(-1)                                 # (B, L, P) whole point valid
        cols, wells, miss = [], [], []
        for _ in m1:
            for p in range(P):
                for d in range(D):
                    cols.append(z[:, :, p, d]); wells.append(np.ones((B, L), bool)); miss.append(~valid[:, :, p, d])
        for k in m2:
            for (a, b) in limbs:
                with np.errstate(all="ignore"):
                    v, w, _ = REF[k](z[:, :, a], z[:, :, b])
                ok = pv[:, :, a] & pv[:, :, b]
                cols.append(np.where(ok, v, 0)); wells.append(w & ok); miss.append(~ok)
        for k in m3:
            for (a, b, c) in tris:
                with np.errstate(all="ignore"):
                    v, w, _ = REF[k + 2](z[:, :, a], z[:, :, b], z[:, :, c])
                ok = pv[:, :, a] & pv[:, :, b] & pv[:, :, c]
                cols.append(np.where(ok, v, 0)); wells.append(w & ok); miss.append(~ok)
        E = len(cols)
        if E == 0:
            return np.zeros((B, L, 0)), np.zeros((B, L, 0), bool), np.zeros((B, L, 0), bool), 0, limbs, tris
        return np.stack(cols, -1), np.stack(wells, -1), np.stack(miss, -1), E, limbs, tris

    def compare_layout(self, case, io, mo):
        if io["status"] != mo["status"]:
            return "implementation: %s (%s), model: %s" % (io["status"], io.get("err", ""), mo["status"])
        if io["status"] == "ctor_err":
            return None
        if io["advertised"] != mo["advertised"]:
            return "advertised output size: implementation %d, model %d" % (io["advertised"], mo["advertised"])
        if io["status"] == "call_err":
            return None
        if io["shape"] != [case["B"], case["L"], mo["size"]]:
            return "output shape: implementation %s, model (%d, %d, %d)" % (io["shape"], case["B"], case["L"], mo["size"])
        ref, well, miss, E, _, _ = self.layout_reference(case)
        well, miss = well.reshape(-1), miss.reshape(-1)
        a, b = io["values"], mo["values"]
        if len(a) != len(b):
            return "output length: implementation %d, model %d" % (len(a), len(b))
        usable = len(well) == len(a)
        for i in range(len(a)):
            if usable and miss[i] and case["backend"] == "torch":
                if not (a[i] == 0 and b[i] == 0):
                    return "feature %d is under the mask: implementation %r, model %r" % (i, a[i], b[i])
            elif (not usable) or well[i]:
                if not close(a[i], b[i]):
                    return "feature %d: implementation %r, model %r" % (i, a[i], b[i])
        return None

    def oracle_layout(self, case):
        io = case.get("_impl") or self.run_layout_impl(case)
        hdr = case["header"]
        in_range = all(a < c[0] and b < c[0] for c in hdr for a, b in c[2])
        fmt_ok = bool(hdr) and hdr[0][1] == case["D"]
        nmods = sum(len(m) for m in case["mods"])
        if not (in_range and fmt_ok and nmods > 0):
            return None            # outside the quantifier (malformed header / channel count != format length / no module)
        ref, well, miss, E, limbs, tris = self.layout_reference(case)
        if not tris:
            return None            # outside the quantifier: no limb chain
        if io["status"] != "ok":
            return {"what": "PoseRepresentation (%s) raises on a header with a limb chain: %s" % (case["backend"], io.get("err")),
                    "clause": "raises", "backend": case["backend"], "err": io.get("err", ""), "mem": case.get("mem", "contiguous"),
                    "points_module": bool(case["mods"][0])}
        if io["advertised"] != E:
            return {"what": "advertised output_size %d, the header implies %d" % (io["advertised"], E), "clause": "output_size", "backend": case["backend"]}
        if io["shape"] != [case["B"], case["L"], E]:
            return {"what": "output shape %s, expected (%d, %d, %d)" % (io["shape"], case["B"], case["L"], E), "clause": "output_shape",
                    "backend": case["backend"]}
        vals = np.array(io["values"]).reshape(case["B"], case["L"], E)
        for idx in np.ndindex(vals.shape):
            x, r = float(vals[idx]), float(ref[idx])
            if case["backend"] == "torch" and miss[idx]:
                if x != 0:
                    return {"what": "feature %s is %r although one of its points is missing" % (list(idx), x), "clause": "layout_masked_zero",
                            "backend": case["backend"], "index": list(idx), "nonfinite": bool(math.isnan(x) or math.isinf(x))}
            elif well[idx] and not close(x, r):
                return {"what": "feature at %s is %r, the header places a feature with value %r there" % (list(idx), x, r),
                        "clause": "block_layout", "backend": case["backend"], "index": list(idx)}
        return None

    # ---------------------------------------------------------------------------------------- classification
    def classify(self, case, failure):
        cl = failure.get("clause", "unknown")
        be = failure.get("backend", "?")
        if case["kind"] == "cell":
            if be == "torch" and cl in ("masked_zero", "never_nan") and failure.get("under_mask") and failure.get("fn") in ("distance", "angle"):
                return "torch-zero-filled-multiplies-garbage-under-mask"
            return "%s-%s-%s" % (be, failure.get("fn"), cl)
        if cl == "layout_masked_zero" and be == "torch" and failure.get("nonfinite"):
            return "torch-zero-filled-multiplies-garbage-under-mask"
        if cl == "raises" and be == "torch" and failure.get("points_module") and "view size" in failure.get("err", ""):
            return "torch-points-representation-view-noncontiguous"
        return "layout-%s-%s" % (be, cl)


PROP = C17
