"""C14 - interpolation resamples time faithfully and never invents observations.

Implementation under test: NumPyPoseBody.interpolate (numpy/pose_body.py:301-386), called directly and through
the Pose.interpolate pass-through.  Model: coq/model/C14_*.v, extracted runner "c14" (binary64 instance)."""
import bisect
import struct
import warnings
from fractions import Fraction

import numpy as np

import common
import translate_c14

KINDS = ["linear", "quadratic", "cubic"]
TOL = 1e-9


def b64(x):
    return struct.unpack("<Q", struct.pack("<d", float(x)))[0]


def f64(w):
    return struct.unpack("<d", struct.pack("<Q", w))[0]


def nest(flat, shape):
    if len(shape) == 1:
        return list(flat[:shape[0]])
    step = 1
    for s in shape[1:]:
        step *= s
    return [nest(flat[i * step:(i + 1) * step], shape[1:]) for i in range(shape[0])]


def flatten(x):
    out = []
    st = [x]
    while st:
        y = st.pop()
        if isinstance(y, list):
            st.extend(reversed(y))
        else:
            out.append(y)
    return out


# ---------------------------------------------------------------------------------------------------
# observation patterns of one track over F frames (1 = observed)
def pattern(rng, F, cls):
    if cls == "never":
        return [0] * F
    if cls == "full":
        return [1] * F
    if cls == "once":
        p = [0] * F
        p[rng.randrange(F)] = 1
        return p
    if cls == "first_only":
        return [1] + [0] * (F - 1)
    if cls == "last_only":
        return [0] * (F - 1) + [1]
    if cls == "ends":
        return [1] + [0] * (F - 2) + [1]
    if cls == "prefix":
        k = rng.randrange(1, F) if F > 1 else 1
        return [1] * k + [0] * (F - k)
    if cls == "suffix":
        k = rng.randrange(1, F) if F > 1 else 1
        return [0] * (F - k) + [1] * k
    if cls == "gaps":      # observed at both ends region with holes
        p = [rng.randrange(2) for _ in range(F)]
        p[0] = 1
        p[-1] = 1
        return p
    if cls == "inner":     # first and last frame unobserved
        p = [rng.randrange(2) for _ in range(F)]
        p[0] = 0
        p[-1] = 0
        return p
    return [rng.randrange(2) for _ in range(F)]


PATTERN_CLASSES = ["never", "full", "once", "first_only", "last_only", "ends", "prefix", "suffix", "gaps", "inner", "random"]
OLD_RATES = [10.0, 25.0, 30.0, 29.97, 24.0, 23.976, 50.0, 60.0, 12.5, 15.0, 7.5, 1.0, 0.1, 100.0]
RATIOS = [1.0, 2.0, 0.5, 1.5, 2.4, 0.7, 3.0, 1.0 / 3.0, 1.1, 0.9, 1.25, 0.75, 4.0, 0.3, 2.5, 1.7]


def make_case(rng, F, P, T, D, pats, old, new, kind, via, values="random", dtype="f8"):
    """pats[p][t] = list of F flags"""
    data = [0.0] * (F * P * T * D)
    conf = [0.0] * (F * P * T)
    aff = None
    if values == "affine":
        aff = {"a": [], "b": [], "c": []}
    for p in range(P):
        for t in range(T):
            scale = rng.choice([1.0, 1.0, 100.0, 1000.0, 0.01])
            if values == "affine":
                a = [round(rng.uniform(-3, 3) * scale, 3) for _ in range(D)]
                b = [round(rng.uniform(-5, 5) * scale, 3) for _ in range(D)]
                c = rng.choice([1.0, 1.0, 0.5, 0.25])
                aff["a"].append(a)
                aff["b"].append(b)
                aff["c"].append(c)
            still_v = [rng.gauss(0, 1) * scale for _ in range(D)]      # values == "still": the point never moves, its confidence varies
            for f in range(F):
                o = pats[p][t][f]
                ci = (f * P + p) * T + t
                if o:
                    if values == "affine":
                        conf[ci] = c
                    else:
                        conf[ci] = rng.choice([1.0, 1.0, round(rng.uniform(0.05, 1.0), 3), round(rng.uniform(0.05, 1.0), 3), -0.5, 2.0,
                                               rng.choice([1e-9, 2.5e-12, 1e-30])])   # tiny but non-zero: observed
                for d in range(D):
                    if values == "affine" and o:
                        v = a[d] * f + b[d]
                    elif values == "still" and o:
                        v = still_v[d]
                    else:
                        v = rng.gauss(0, 1) * scale          # also under the mask: garbage that must not leak
                    data[ci * D + d] = v
    # confidences as whole numbers held in an INTEGER array (what bbox() and 0/1 presence flags give): observed stays observed
    intconf = rng.random() < 0.2 and aff is None          # affine cases keep their fractional confidences
    if intconf:
        two = 2 if rng.random() < 0.3 else 1                  # mostly pure 0/1 presence flags
        conf = [float(1 if v != 0 else 0) if (i % 5) else float(two if v != 0 else 0) for i, v in enumerate(conf)]
    if dtype == "f4":
        data = [float(np.float32(v)) for v in data]
        conf = [float(np.float32(v)) for v in conf]
    case = {"F": F, "P": P, "T": T, "D": D, "intconf": bool(intconf), "fps": b64(old), "new": None if new is None else b64(new), "kind": kind,
            "via": via, "dtype": dtype, "data": [b64(v) for v in data], "conf": [b64(v) for v in conf]}
    if aff is not None:
        case["affine"] = aff
    return case


def gen_structured(rng, tier):
    F = rng.choice([2, 3, 4, 5, 5, 6, 7, 8, 8, 8] + ([9, 10, 12] if tier == "thorough" else []))
    P = rng.choice([1, 1, 2, 3])
    T = rng.choice([1, 2, 3, 4])
    D = rng.choice([1, 2, 2, 3])
    pats = [[pattern(rng, F, rng.choice(PATTERN_CLASSES)) for _ in range(T)] for _ in range(P)]
    old = rng.choice(OLD_RATES)
    r = rng.random()
    if r < 0.18:
        new = old
    elif r < 0.25:
        new = None
    elif r < 0.85:
        new = old * rng.choice(RATIOS)
    else:
        new = round(rng.uniform(0.3, 3.0) * old, rng.choice([0, 1, 2, 6]))
        if new <= 0:
            new = old
    kind = rng.choice(KINDS)
    via = rng.choice(["body", "pose"])
    values = rng.choice(["random", "random", "affine", "random", "still"])
    dtype = rng.choice(["f8", "f8", "f8", "f4"]) if values != "affine" else "f8"
    return make_case(rng, F, P, T, D, pats, old, new, kind, via, values, dtype)


def _sensitive_counts():
    """(F, old, new) with F * new / old an exact k + 1/2 on which a re-associated float expression (F * (new / old),
    (F / old) * new, F / (old / new)) rounds to a different integer than round(F * new / old): the inputs that tell the
    coded expression from its plausible rewrites (about 1% of all exact ties)"""
    rates = [5, 6, 10, 12, 15, 20, 24, 25, 30, 48, 50, 60]
    out = []
    for old in rates:
        for new in rates:
            if new == old:
                continue
            for F in range(2, 201):
                if (2 * F * new) % old == 0 and ((2 * F * new) // old) % 2 == 1:
                    ref = round(F * new / old)
                    if any(round(v) != ref for v in (F * (new / old), (F / old) * new, F / (old / new))):
                        out.append((F, float(old), float(new)))
    return out


SENSITIVE_COUNTS = _sensitive_counts()


def gen_count(rng):
    """one fully observed track; frame counts incl. exact .5 quotients and large counts"""
    if rng.random() < 0.3:
        F, old, new = rng.choice(SENSITIVE_COUNTS)
        return make_case(rng, F, 1, 1, 1, [[[1] * F]], old, new, "linear", "body", "affine")
    F = rng.choice([2, 3, 5, 7, 9, 11, 25, 50, 99, 100, 101, 250, 333, 1000])
    old = rng.choice(OLD_RATES + [2.0, 4.0, 8.0, 20.0])
    r = rng.random()
    if r < 0.4:      # k + 1/2 exactly when representable
        k = rng.randrange(1, 3 * F)
        new = (k + 0.5) * old / F
    elif r < 0.7:
        new = old * rng.choice(RATIOS)
    else:
        new = rng.uniform(0.05, 4.0) * old
    n_est = F * new / old
    if n_est > 1500:
        new = old
    pats = [[[1] * F]]
    return make_case(rng, F, 1, 1, 1, pats, old, new, "linear", "body", "affine")


def gen_malformed(rng):
    c = rng.choice(["single_frame", "old_zero", "new_negative", "new_zero", "one_new_frame", "one_new_frame", "no_people", "no_points", "zero_new_frames"])
    F = rng.choice([2, 3, 4, 6])
    P, T, D = rng.choice([1, 2]), rng.choice([1, 2, 3]), rng.choice([1, 2])
    old, new = 10.0, 20.0
    if c == "single_frame":
        F = 1
    elif c == "old_zero":
        old = rng.choice([0.0, -0.0])
    elif c == "new_negative":
        new = -rng.choice([5.0, 10.0, 0.4])
    elif c == "new_zero":
        new = 0.0
    elif c == "one_new_frame":
        new = old * rng.choice([1.0, 1.2, 0.8, 1.4]) / F
    elif c == "zero_new_frames":
        new = old * 0.4 / F
    elif c == "no_people":
        P = 0
    elif c == "no_points":
        T = 0
    pats = [[pattern(rng, F, rng.choice(PATTERN_CLASSES)) for _ in range(T)] for _ in range(P)]
    case = make_case(rng, F, P, T, D, pats, old, new, rng.choice(KINDS), "body", rng.choice(["random", "affine"]))
    case["edge"] = c
    return case


def all_patterns_cases(rng, F):
    """every observation pattern over F frames, T = 4 points per case, rotating kinds and rates"""
    pats = [[(m >> i) & 1 for i in range(F)] for m in range(1 << F)]
    out = []
    for i in range(0, len(pats), 4):
        chunk = pats[i:i + 4]
        for kind in KINDS:
            old = rng.choice(OLD_RATES)
            new = rng.choice([old, old * rng.choice(RATIOS), old * rng.choice(RATIOS)])
            out.append(make_case(rng, F, 1, len(chunk), 2, [chunk], old, new, kind, "body", rng.choice(["random", "affine"])))
    return out


# ---------------------------------------------------------------------------------------------------
class C14(common.Prop):
    ID = "C14"
    RUNNER = "c14"
    RUNNER_FLOATS = True
    # Reals axioms + the kernel's primitive-float operations that Print Assumptions lists unqualified
    ALLOWED_AXIOMS = set(common.REALS_AXIOMS) | {"of_uint63", "normfr_mantissa", "frshiftexp", "ldshiftexp", "classify", "compare",
                                                  "next_up", "next_down", "of_sint63",
                                                  "Classical_Prop.classic"}      # Flocq, in identity_rate_count only
    MODEL_FILES = ["base/Num.v", "model/C14_Count.v", "model/C14_Interp.v", "model/C14_Spline.v", "model/C14_Run.v"]
    RULE = ("bodies with F 2..8 (..12 thorough) frames, 1..3 people, 1..4 points, 1..3 dims; each track draws an observation "
            "pattern class (never/full/once/first/last/ends/prefix/suffix/gaps/inner/random), thorough adds every pattern over "
            "<= 8 frames; rates from 14 source rates x 16 ratios (same, None, integer and non-integer up/down-sampling, random); "
            "three kinds; random or affine-in-time values (garbage under the mask), float64 or float32 arrays; direct call and "
            "Pose pass-through; a frame-count stream (exact .5 quotients, counts up to 1500) and a malformed stream (1 frame, "
            "fps 0, negative/zero target, 0 or 1 new frames, no people/points); np.linspace grids n <= 64. Compared: frame count, "
            "fps, mask exactly (conf within 1e-9 of 0 either way), values and confidence within 1e-9*max(1,|track|). "
            "non-trivial = accepted by the implementation with >= 1 observed track; distinct by content hash " "20% of the non-affine cases hold whole-number confidences in an integer array (presence flags).")
    TRUSTED = ["Coq 8.16.1 kernel; PrimFloat/Uint63 primitives (frame count, binary64 run)", "harness/translate_c14.py (fail-closed ast translator)",
               "extraction: ExtrOcamlBasic, ExtrOCamlFloats, ExtrOCamlInt63; runner/driver.ml",
               "harness/c14.py comparison tolerance 1e-9 and the rational-time reference of the oracle"]
    ASSUMPTIONS = ["theorems are over exact reals (Num.R_ops); the executed instance is binary64 and compared with 1e-9 tolerance; rounding/overflow unmodelled",
                   "quadratic/cubic: SciPy interp1d is the Section variable `spline` with hypotheses `interpolates its nodes` and `reproduces "
                   "polynomials of degree <= k`; both are sampled on SciPy by the oracle (identity / affine clauses) and by the correspondence "
                   "against the executable not-a-knot B-spline of model/C14_Spline.v; they are not proved of SciPy",
                   "np.linspace, np.argwhere, numpy.ma compressed/concatenate and SciPy's linear interp1d behave as modelled (sampled by the correspondence)",
                   "bodies are well formed: data mask == (confidence == 0) (constructor route), finite values",
                   "grid ties: when a new sample time equals an observation time as rationals but the two binary64 grids differ by an ulp, either side is accepted (DESIGN section 7)"]

    def translate(self):
        return translate_c14.gen()

    def translate_outputs(self):
        return ["gen/Gen_C14.v"]

    def setup(self):
        warnings.filterwarnings("ignore")
        from pose_format import Pose
        from pose_format.numpy import NumPyPoseBody
        from pose_format.pose_header import PoseHeader, PoseHeaderComponent, PoseHeaderDimensions
        self.Pose, self.Body = Pose, NumPyPoseBody
        self.H = (PoseHeader, PoseHeaderComponent, PoseHeaderDimensions)

    # ---- cases
    def gen_cases(self, rng, tier):
        for n in ([0, 1, 2, 3, 4, 5, 7, 8, 12, 15, 16, 23, 31, 50, 64] if tier == "quick" else list(range(0, 65)) + [100, 257, 1000]):
            yield {"op": "grid", "n": n}
        n_struct, n_count, n_mal = (330, 50, 30) if tier == "quick" else (9000, 1500, 600)
        if tier == "thorough":
            for F in (2, 3, 4, 5, 6, 7, 8):
                for c in all_patterns_cases(rng, F):
                    yield c
        for i in range(n_struct):
            yield gen_structured(rng, tier)
        for i in range(n_count):
            yield gen_count(rng)
        for i in range(n_mal):
            yield gen_malformed(rng)

    def _tracks(self, case):
        F, P, T = case["F"], case["P"], case["T"]
        conf = [f64(w) for w in case["conf"]]
        return {(p, t): [f for f in range(F) if conf[(f * P + p) * T + t] != 0] for p in range(P) for t in range(T)}

    def features(self, case):
        if case.get("op") == "grid":
            return ("grid",)
        if "edge" in case:
            return ("malformed", case["edge"])
        tr = self._tracks(case)
        F = case["F"]

        def cls(o):
            if not o:
                return "never"
            if len(o) == 1:
                return "once"
            if len(o) == F:
                return "full"
            return ("ends" if o[0] == 0 and o[-1] == F - 1 else "prefix" if o[0] == 0 else "suffix" if o[-1] == F - 1 else "inner") + \
                   ("+gaps" if o[-1] - o[0] + 1 != len(o) else "")
        new = case["fps"] if case["new"] is None else case["new"]
        ratio = f64(new) / f64(case["fps"]) if f64(case["fps"]) else 0
        rc = "same" if ratio == 1 else "up" if ratio > 1 else "down"
        if ratio not in (1.0, 2.0, 3.0, 4.0, 0.5):
            rc += "-nonint"
        return (case["kind"], rc, "affine" if "affine" in case else case["dtype"], case["via"], ",".join(sorted({cls(o) for o in tr.values()})))

    def nontrivial(self, case):
        if case.get("op") == "grid":
            return case["n"] > 1
        return "edge" not in case and any(self._tracks(case).values())

    # ---- implementation
    def run_impl(self, case):
        if case.get("op") == "grid":
            return ["ok", [b64(x) for x in np.linspace(0, 1, case["n"])]]
        F, P, T, D = case["F"], case["P"], case["T"], case["D"]
        dt = np.float32 if case["dtype"] == "f4" else np.float64
        data = np.array([f64(w) for w in case["data"]], dtype=np.float64).reshape(F, P, T, D).astype(dt)
        conf = np.array([f64(w) for w in case["conf"]], dtype=np.float64).reshape(F, P, T).astype(dt)
        if case.get("intconf"):
            conf = conf.astype(np.int64 if (F + P + T) % 2 else np.int32)
        fps = f64(case["fps"])
        new = None if case["new"] is None else f64(case["new"])
        try:
            body = self.Body(fps, data, conf)
            if case["via"] == "pose":
                PoseHeader, Comp, Dims = self.H
                comp = Comp("c", ["p%d" % i for i in range(T)], [], [], "XYZW"[:D] + "C")
                pose = self.Pose(PoseHeader(0.2, Dims(10, 10, 10), [comp]), body)
                res = pose.interpolate(new, case["kind"]) if new is not None else pose.interpolate(kind=case["kind"])
                if res.header is not pose.header:
                    return ["bad", "Pose.interpolate replaced the header"]
                r = res.body
            else:
                r = body.interpolate(new, case["kind"]) if new is not None else body.interpolate(kind=case["kind"])
        except Exception as e:   # every exception is the one class "raises"
            out = ["err", type(e).__name__ + ": " + str(e)[:120]]
            case["_impl"] = out
            return out
        n = int(r.data.shape[0])
        out = ["ok", {"fps": b64(r.fps), "shape": [int(x) for x in r.data.shape],
                      "data": np.asarray(r.data.data, dtype=np.float64).reshape(-1).tolist(),
                      "conf": np.asarray(r.confidence, dtype=np.float64).reshape(-1).tolist(),
                      "mask": np.asarray(np.ma.getmaskarray(r.data), dtype=np.int64).reshape(-1).tolist(),
                      "conf_shape": [int(x) for x in r.confidence.shape]}]
        case["_impl"] = out
        return out

    # ---- model
    def model_request(self, case):
        if case.get("op") == "grid":
            return [3, case["n"]]
        F, P, T, D = case["F"], case["P"], case["T"], case["D"]
        return [1, case["fps"], [] if case["new"] is None else [case["new"]], KINDS.index(case["kind"]), P, T, D,
                nest(case["data"], [F, P, T, D]) if F * P * T * D else [[[[] for _ in range(T)] for _ in range(P)] for _ in range(F)],
                nest(case["conf"], [F, P, T]) if F * P * T else [[[] for _ in range(P)] for _ in range(F)]]

    def model_output(self, case, reply):
        if case.get("op") == "grid":
            return ["ok", list(reply)]
        if reply[0] == 0:
            return ["err", "model error class %d" % reply[1]]
        fps, n, data, conf, mask = reply[1]
        P, T, D = case["P"], case["T"], case["D"]
        return ["ok", {"fps": fps, "shape": [n, P, T, D], "data": [f64(w) for w in flatten(data)],
                       "conf": [f64(w) for w in flatten(conf)], "mask1": flatten(mask), "conf_shape": [n, P, T]}]

    def compare(self, case, impl_out, model_out):
        if case.get("op") == "grid":
            return None if impl_out == model_out else "np.linspace(0,1,%d) differs from the model grid" % case["n"]
        if impl_out[0] == "bad":
            return impl_out[1]
        if impl_out[0] != model_out[0]:
            return "implementation %s, model %s" % (impl_out[0] + (" (" + impl_out[1] + ")" if impl_out[0] == "err" else ""), model_out[0])
        if impl_out[0] == "err":
            return None
        a, b = impl_out[1], model_out[1]
        if a["shape"] != b["shape"] or a["conf_shape"] != b["conf_shape"]:
            return "shape: implementation %s, model %s" % (a["shape"], b["shape"])
        if a["fps"] != b["fps"]:
            return "fps differs"
        n, P, T, D = a["shape"]
        scale = self._scales(case)
        for j in range(n):
            for p in range(P):
                for t in range(T):
                    ci = (j * P + p) * T + t
                    tol = TOL * scale[(p, t)]
                    ca, cb = a["conf"][ci], b["conf"][ci]
                    if not (abs(ca - cb) <= tol):
                        return "confidence at frame %d person %d point %d: implementation %r, model %r" % (j, p, t, ca, cb)
                    ma_ = [a["mask"][ci * D + d] for d in range(D)]
                    if len(set(ma_)) > 1:
                        return "mask differs between the coordinates of one point"
                    if D and ma_[0] != b["mask1"][ci] and not (abs(ca) <= tol and abs(cb) <= tol):
                        return "mask at frame %d person %d point %d: implementation %d, model %d" % (j, p, t, ma_[0], b["mask1"][ci])
                    for d in range(D):
                        va, vb = a["data"][ci * D + d], b["data"][ci * D + d]
                        if not (abs(va - vb) <= tol):
                            return "value at frame %d person %d point %d dim %d: implementation %r, model %r" % (j, p, t, d, va, vb)
        return None

    def _scales(self, case):
        F, P, T, D = case["F"], case["P"], case["T"], case["D"]
        data = [f64(w) for w in case["data"]]
        conf = [f64(w) for w in case["conf"]]
        out = {}
        for p in range(P):
            for t in range(T):
                m = 1.0
                for f in range(F):
                    ci = (f * P + p) * T + t
                    if conf[ci] != 0:
                        m = max([m, abs(conf[ci])] + [abs(data[ci * D + d]) for d in range(D)])
                out[(p, t)] = m * (F ** 2)      # splines amplify by a modest factor of the node count
        return out

    # ---- direct oracle: the property statement on the implementation alone, against a rational-time reference
    def oracle(self, case):
        if case.get("op") == "grid" or "edge" in case and case["edge"] not in ("one_new_frame", "zero_new_frames", "new_zero"):
            return None      # outside the quantifier (1 frame, fps 0, negative target, no people / points): raising is allowed
        impl = case.get("_impl")
        if impl is None:
            return None
        F, P, T, D = case["F"], case["P"], case["T"], case["D"]
        old = Fraction(f64(case["fps"]))
        newf = f64(case["fps"]) if case["new"] is None else f64(case["new"])
        E = Fraction(F) * Fraction(newf) / old
        lo_n = E.numerator // E.denominator
        frac = E - lo_n
        near_half = abs(frac - Fraction(1, 2)) <= Fraction(1, 10 ** 9) * max(1, E)
        n_ok = {lo_n, lo_n + 1} if near_half else {round(E)}
        # an EXACT tie computed without any rounding (F * new is a representable product, the quotient k + 1/2 is then
        # exact too): `round` is Python's (half to even) and nothing else is acceptable
        if frac == Fraction(1, 2) and Fraction(float(F) * newf) == F * Fraction(newf):
            n_ok = {round(E)}
        if impl[0] != "ok":
            return {"clause": "raises", "what": "interpolate raises on a body in the property's domain: " + impl[1], "n_expected": sorted(n_ok)}
        r = impl[1]
        n = r["shape"][0]
        if n not in n_ok or r["shape"][1:] != [P, T, D] or r["conf_shape"] != [n, P, T]:
            return {"clause": "frame_count", "what": "result has shape %s, expected round(%d*%r/%r) in %s frames of (%d,%d,%d)"
                    % (r["shape"], F, newf, f64(case["fps"]), sorted(n_ok), P, T, D)}
        if r["fps"] != b64(newf):
            return {"clause": "fps", "what": "result fps %r, expected the new rate %r" % (f64(r["fps"]), newf)}
        data_in = [f64(w) for w in case["data"]]
        conf_in = [f64(w) for w in case["conf"]]
        steps = np.linspace(0, 1, F)
        new_steps = np.linspace(0, 1, n)
        scale = self._scales(case)
        tracks = self._tracks(case)

        tnew_l = [Fraction(j, n - 1) if n > 1 else Fraction(0) for j in range(n)]
        told_l = [Fraction(i, F - 1) for i in range(F)]

        def tnew(j):
            return tnew_l[j]

        def told(i):
            return told_l[i]

        def row_in(i, p, t):
            ci = (i * P + p) * T + t
            return [data_in[ci * D + d] for d in range(D)] + [conf_in[ci]]

        def row_out(j, p, t):
            ci = (j * P + p) * T + t
            return [r["data"][ci * D + d] for d in range(D)] + [r["conf"][ci]]

        def masked(j, p, t):
            ci = (j * P + p) * T + t
            return [r["mask"][ci * D + d] for d in range(D)]

        for (p, t), obs in tracks.items():
            tol = TOL * scale[(p, t)]
            obs_time = {told(i): i for i in obs}
            obs_t = [told(i) for i in obs]
            for j in range(n):
                tj = tnew(j)
                ro = row_out(j, p, t)
                mk = masked(j, p, t)
                where = "frame %d (t=%s) person %d point %d, observed frames %s of %d" % (j, tj, p, t, obs, F)
                if obs:
                    lo, hi = told(obs[0]), told(obs[-1])
                    tie_lo = tj == lo and new_steps[j] != steps[obs[0]]
                    tie_hi = tj == hi and new_steps[j] != steps[obs[-1]]
                    outside = tj < lo or tj > hi
                    undecided = tie_lo or tie_hi
                else:
                    outside, undecided = True, False
                # mask must be what the constructor derives from confidence == 0
                if any(m != int(ro[-1] == 0) for m in mk):
                    return {"clause": "mask", "what": "mask is not (confidence == 0) at " + where}
                if outside:
                    if ro[-1] != 0 or not all(mk):
                        return {"clause": "support", "what": "a value outside the observed range (or for a never observed point): conf %r mask %s at %s"
                                % (ro[-1], mk, where), "n": n, "obs": obs}
                    continue
                if undecided:
                    continue
                # inside [first, last]
                at = obs_time.get(tj)
                if len(obs) == 1 or at is not None:
                    i = [] if at is None else [at]
                    if i and (new_steps[j] == steps[i[0]] or len(obs) > 1):
                        ri = row_in(i[0], p, t)
                        if max(abs(x - y) for x, y in zip(ro, ri)) > tol:
                            cl = "identity" if n == F else "ends" if (j in (0, n - 1) and i[0] in (0, F - 1)) else "nodes"
                            return {"clause": cl, "what": "observed frame %d is not reproduced (got %s, expected %s) at %s" % (i[0], ro, ri, where)}
                if "affine" in case and (len(obs) > 1 or tj == told(obs[0])):
                    k = p * T + t
                    a, b_, c = case["affine"]["a"][k], case["affine"]["b"][k], case["affine"]["c"][k]
                    ex = [a[d] * float(tj * (F - 1)) + b_[d] for d in range(D)] + [c]
                    if max(abs(x - y) for x, y in zip(ro, ex)) > tol or any(mk):
                        return {"clause": "affine", "what": "affine trajectory not reproduced by %s (got %s, expected %s) at %s" % (case["kind"], ro, ex, where)}
                if case["kind"] == "linear" and len(obs) > 1:
                    i_lo = obs[bisect.bisect_right(obs_t, tj) - 1]
                    i_hi = obs[bisect.bisect_left(obs_t, tj)]
                    rl, rh = row_in(i_lo, p, t), row_in(i_hi, p, t)
                    for d in range(D + 1):
                        if not (min(rl[d], rh[d]) - tol <= ro[d] <= max(rl[d], rh[d]) + tol):
                            return {"clause": "linear_in_range", "what": "column %d = %r leaves the range of the neighbouring observations [%r, %r] at %s"
                                    % (d, ro[d], rl[d], rh[d], where)}
        return None

    def classify(self, case, failure):
        cl = failure.get("clause", "oracle-crash")
        if cl in ("raises", "support") and (failure.get("n") == 1 or failure.get("n_expected") == [1]):
            return "one-new-frame-first-index-default"
        return cl


PROP = C14
