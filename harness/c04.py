"""C04 - files in the older v0.0 and v0.1 layouts decode to what their spec describes; the decoded pose
rewritten as v0.2 reads back to the same content; unknown versions are refused."""
import math
import struct
from fractions import Fraction

import numpy as np

import common
import posegen as pg
import translate_c04

PREFETCH_DEFAULT = 10 * 1024 + 100
V02_WORD = 0x3E4CCCCD
V01_WORD = 0x3DCCCCCD


# ------------------------------------------------------------------------------------------------
# reference encoders (struct only; written from docs/specs/v0.0.md and v0.1.md) and expected views
def f32w(x):
    return struct.unpack("<I", struct.pack("<f", x))[0]


def w2f(w):
    return struct.unpack("<f", struct.pack("<I", w))[0]


def py_str(cpsl):
    b = pg.from_cps(cpsl).encode("utf-8")
    return struct.pack("<H", len(b)) + b


def py_header(case):
    out = struct.pack("<I", case["version"]) + struct.pack("<HHH", *case["dims"]) + struct.pack("<H", len(case["comps"]))
    for c in case["comps"]:
        out += py_str(c["name"]) + py_str(c["format"]) + struct.pack("<HHH", len(c["points"]), len(c["limbs"]), len(c["colors"]))
        for p in c["points"]:
            out += py_str(p)
        for l in c["limbs"]:
            out += struct.pack("<HH", *l)
        for k in c["colors"]:
            out += struct.pack("<HHH", *k)
    return out


def words_bytes(ws):
    return np.array(ws, dtype="<u4").tobytes()


def py_body00(case):
    out = struct.pack("<HH", case["fps"], len(case["frames"]))
    for people in case["frames"]:
        out += struct.pack("<H", len(people))
        for pid, comps in people:
            out += struct.pack("<h", pid)
            for pts in comps:
                for coords, conf in pts:
                    out += words_bytes(list(coords) + [conf])
    return out


def expand(block, kind):
    """data / conf of a v0.1 case: explicit per-frame lists, or a rule (long recordings stay small in JSON)"""
    if isinstance(block, list):
        return block
    F, cells = block["F"], block["cells"]
    if kind == "data":
        return [[f32w(float((f * cells + i) % 16000000)) for i in range(cells)] for f in range(F)]
    return [[f32w(0.0 if (f + i) % 7 == 3 else 0.5 + ((f + i) % 4) * 0.125) for i in range(cells)] for f in range(F)]


def py_body01(case, data, conf):
    return (struct.pack("<HHH", case["fps"], case["field"], case["P"]) +
            words_bytes([w for fr in data for w in fr]) + words_bytes([w for fr in conf for w in fr]))


def py_body02(case, data, conf):
    return (struct.pack("<fIH", float(case["fps"]), len(data), case["P"]) +
            words_bytes([w for fr in data for w in fr]) + words_bytes([w for fr in conf for w in fr]))


def header_dump(case):
    return {"version": pg.canon32(case["version"]), "dims": list(case["dims"]),
            "comps": [{"name": c["name"], "format": c["format"], "points": c["points"], "limbs": [list(l) for l in c["limbs"]],
                       "colors": [list(k) for k in c["colors"]]} for c in case["comps"]]}


def total_points(case):
    return sum(len(c["points"]) for c in case["comps"])


def max_fmt(case):
    return max([len(c["format"]) for c in case["comps"]]) if case["comps"] else None


def view00(case):
    """first person of every frame, zeros for frames without people (values exactly as stored)"""
    T = total_points(case)
    D = max_fmt(case) - 1
    data, conf, empty = [], [], []
    for people in case["frames"]:
        if people:
            _, comps = people[0]
            data.append([w for pts in comps for coords, _ in pts for w in coords])
            conf.append([c for pts in comps for _, c in pts])
            empty.append(False)
        else:
            data.append([0] * (T * D))
            conf.append([0] * T)
            empty.append(True)
    return {"P": 1, "T": T, "D": D, "data": data, "conf": conf, "empty": empty}


def dump_of_view(case, v, s0, e0):
    d = header_dump(case)
    d["fps"] = f32w(float(case["fps"]))
    d["shape"] = [e0 - s0, v["P"], v["T"], v["D"]]
    d["data"] = [pg.canon32(w) for fr in v["data"][s0:e0] for w in fr]
    d["conf"] = [pg.canon32(w) for fr in v["conf"][s0:e0] for w in fr]
    return d


def resolve_window(args, fps, F):
    """-> (s0, e0) | "conflict" | "beyond"; times by floor / ceil of t/1000*fps as for v0.2"""
    if ("start_frame" in args and "start_time" in args) or ("end_frame" in args and "end_time" in args):
        return "conflict"
    s = args.get("start_frame")
    if "start_time" in args:
        s = math.floor(args["start_time"] / 1000 * fps)
    e = args.get("end_frame")
    if "end_time" in args:
        e = math.ceil(args["end_time"] / 1000 * fps)
    s0 = s if (s is not None and s > 0) else 0
    if s0 > 0 and s0 >= F:
        return "beyond"
    e0 = F if e is None else min(e, F)
    return (s0, e0)


def version_known(word):
    """the format's own rule at 3 decimals, in exact rational arithmetic on the float32 value"""
    v = w2f(word)
    if v != v or v in (math.inf, -math.inf):
        return False
    if v == 0:
        return True
    q = Fraction(v)
    return (Fraction(995, 10000) < q < Fraction(1005, 10000)) or (Fraction(1995, 10000) < q < Fraction(2005, 10000))


NOISE_CONF = [0x00000000, 0x80000000, 0x3F800000, 0x3F000000, 0x3E4CCCCD, 0xBF800000, 0x7FC00000, 0x00000001, 0x80000001, 0x7F800000, 0xFF800000]


class C04(common.Prop):
    ID = "C04"
    RUNNER = "c04"
    MODEL_FILES = ["base/Prog.v", "base/F32.v", "model/Codec.v", "model/PoseRead.v", "model/C04_Legacy.v", "model/C04_Spec.v", "model/C04_Run.v"]
    RULE = ("reference-encoded v0.0 files (0..3 people per frame, varying; first/other people with distinct values; confidences incl. "
            "0, -0, negative, NaN, inf; 2-D and 3-D formats) and v0.1 files (1..3 people, 1..6 points, D 1..3, frame counts 1..40 and on both "
            "sides of 65535 with one point), each read from bytes and from a stream, under three memo states, with no window, frame windows "
            "in every relation to the 10 340-byte prefetch, time windows, one bound by frame and the other by time, starts at / beyond "
            "the last frame by frame and by time, a frame and a time bound for the same end, negative and inverted bounds (both layouts, "
            "both sources); ~12% structurally invalid legacy files (mixed format lengths, "
            "1-letter formats, no components, zero frames, zero people/points for v0.1); version words around 0, 0.1, 0.2 and far from "
            "them; every decodable case is also rewritten (Pose.write) and read back; non-trivial = legacy file that decodes, or a version "
            "that must be refused; distinct by content hash")
    TRUSTED = ["Coq 8.16.1 kernel (vm_compute used for the 65 536-value fps sweep and the float32 subnormal sweep)",
               "harness/translate_c04.py (fail-closed ast translator)", "extraction: ExtrOcamlBasic only; runner/driver.ml",
               "harness/posegen.py canonicalisers (NaN -> one word; errors -> one class)", "harness/c04.py struct reference encoders"]
    ASSUMPTIONS = ["CPython int / int is the correctly rounded binary64 quotient and int() truncates (SpecFloat.SFdiv model, sampled by op 43)",
                   "numpy.ma stack / concatenate / masked_array(mask=...) combine masks as modelled (sampled by the correspondence)",
                   "io.BytesIO.seek(0, 2) returns the stream length",
                   "fps of a legacy file is compared as a number (the implementation keeps the Python int, the model its float32 word)"]

    def translate(self):
        return translate_c04.gen()

    def translate_outputs(self):
        return ["Gen_C04.v"]

    def setup(self):
        self.other = pg.other_file_bytes()
        self._cache = {}

    # ------------------------------------------------------------------ generation
    def gen_header(self, rng, D, uniform=True, ncomp=None):
        ncomp = ncomp or rng.choice([1, 1, 2, 3])
        comps = []
        for i in range(ncomp):
            fl = D + 1 if (uniform or i == 0) else rng.randrange(1, D + 2)
            c = pg.gen_component(rng, rng.choice([0, 1, 1, 2, 3]), fl, rng.random() < 0.3)
            fmt = "XYZW"[:fl - 1] + "C"
            c["format"] = pg.cps(fmt)
            comps.append(c)
        return comps

    def word(self, rng, conf=False):
        if conf:
            r = rng.random()
            if r < 0.25:
                return 0
            if r < 0.6:
                return rng.choice(NOISE_CONF)
            return f32w(rng.choice([1.0, 0.5, 0.25, 0.9]))
        r = rng.random()
        if r < 0.15:
            return rng.choice(pg.F32_SPECIAL)
        if r < 0.5:
            return rng.getrandbits(32)
        return f32w(float(rng.randrange(-2000, 2000)) / 4)

    def gen_v00(self, rng):
        D = rng.choice([2, 2, 2, 3, 1])
        edge = "none"
        comps = self.gen_header(rng, D)
        r = rng.random()
        if r < 0.03:
            edge = "mixed-format"
            comps = self.gen_header(rng, 3, uniform=False, ncomp=2)
            comps[1]["format"] = pg.cps("XYC")
        elif r < 0.05:
            edge = "one-letter-format"
            for c in comps:
                c["format"] = pg.cps("C")
        elif r < 0.06:
            edge = "no-components"
            comps = []
        F = rng.choice([1, 1, 2, 3, 5, 8])
        if edge == "none" and rng.random() < 0.04:
            edge = "zero-frames"
            F = 0
        # sometimes larger than the 10 340-byte prefetch: frames are added until the body passes a size between 11 and 16 KB (at most
        # 700 frames).  Not larger: the extracted stream interpreter keeps the fetched bytes in a list and is quadratic in the file size
        target = None
        if edge == "none" and rng.random() < 0.08:
            F, target = 700, rng.randrange(11000, 16000)
        frames = []
        size = 0
        per_person = 2 + 4 * sum(len(c["points"]) * len(c["format"]) for c in comps)
        pattern = rng.choice(["vary", "vary", "all-empty", "one-each", "crowd"])
        for f in range(F):
            if target is not None and size > target:
                break
            n = {"vary": rng.choice([0, 1, 1, 2, 3]), "all-empty": 0, "one-each": 1, "crowd": 3}[pattern]
            people = []
            for k in range(n):
                cvals = []
                for c in comps:
                    L = len(c["format"])
                    cvals.append([[[self.word(rng) for _ in range(max(0, L - 1))], self.word(rng, conf=True)] for _ in c["points"]])
                people.append([rng.choice([0, 1, k, -1, 32767, -32768, 7]), cvals])
            frames.append(people)
            size += 2 + n * per_person
        # mostly +0.0 / -0.0; sometimes a tiny non-zero float (|v| < 0.0005): NOT version 0, must be refused even though the
        # body parses in the v0.0 layout
        ver = rng.choice([0, 0, 0, 0x80000000]) if rng.random() < 0.9 else \
            rng.choice([1, 0x80000001, 0x00800000, f32w(4e-4), f32w(-3e-4), f32w(1e-10), f32w(4.9e-4)])
        return {"kind": "v00", "version": ver, "dims": [rng.choice([0, 640, 65535]), 480, 0], "comps": comps,
                "fps": rng.choice([30, 25, 24, 0, 1, 60, 65535, 1000]), "frames": frames, "edge": edge}

    def gen_v01(self, rng, big=False):
        D = rng.choice([1, 2, 2, 3])
        edge = "none"
        if big:
            comps = [{"name": pg.cps("c"), "format": pg.cps("XYZ"[:D] + "C"), "points": [pg.cps("p")], "limbs": [], "colors": []}]
            P = 1
            F = rng.choice([65535, 65536, 65536, 65537, 65537, 66000, 70000])
            field = rng.choice([F % 65536, F % 65536, 0, 65535])
            data = {"F": F, "cells": D}
            conf = {"F": F, "cells": 1}
        else:
            comps = self.gen_header(rng, D, uniform=rng.random() < 0.8)
            P = rng.choice([1, 1, 2, 3])
            r = rng.random()
            if r < 0.03:
                edge = "zero-people"
                P = 0
            elif r < 0.06:
                edge = "zero-points"
                for c in comps:
                    c["points"] = []
            elif r < 0.08:
                edge = "no-components"
                comps = []
            elif r < 0.10:
                edge = "empty-formats"
                for c in comps:
                    c["format"] = []
            T = sum(len(c["points"]) for c in comps)
            if edge == "none" and T == 0:
                comps[0]["points"] = [pg.cps("p0")]
                T = 1
            DD = (max([len(c["format"]) for c in comps]) - 1) if comps else 0
            F = rng.choice([1, 2, 3, 5, 12, 40])
            per = P * T * (DD + 1) * 4
            if edge == "none" and rng.random() < 0.35:
                F = max(2, (11000 // per) + rng.randrange(1, 30))    # total size beyond the prefetch
            field = rng.choice([F % 65536, F % 65536, 0, 1, 65535])
            data = [[self.word(rng) for _ in range(P * T * max(DD, 0))] for _ in range(F)]
            conf = [[self.word(rng, conf=True) for _ in range(P * T)] for _ in range(F)]
            if edge == "none" and rng.random() < 0.05:
                edge = "extra-bytes"       # payload not a whole number of frames: the count is the floor
                conf[-1] = conf[-1] + [0]
        # float32(0.1), two neighbours inside the 3-decimal tolerance, and the two nearest floats outside it (refused)
        return {"kind": "v01", "version": rng.choice([V01_WORD] * 6 + [0x3DCC8000, 0x3DCD8000, 1036764840, 1036899057, 1036764839, 1036899058]), "dims": [640, 480, 0], "comps": comps,
                "fps": rng.choice([30, 25, 24, 0, 1, 60, 65535, 1000]), "field": field, "P": P, "data": data, "conf": conf, "edge": edge}

    def gen_version(self, rng):
        base = rng.choice([0.0, 0.1, 0.2, 0.0995, 0.1005, 0.1995, 0.2005, 0.3, 1.0, -0.1, 0.15, 0.05, 2.0, 1e-3, 5e-4, 0.25])
        w = f32w(base)
        w = max(0, w + rng.choice([0, 0, 1, -1, 2, -2, 3, -3, 16, -16])) if base != 0.0 else rng.choice([0, 0x80000000, 1, 0x80000001, 0x00800000])
        if rng.random() < 0.1:
            w = rng.choice([0x7FC00000, 0x7F800000, 0xFF800000, 0xBDCCCCCD, 0xBE4CCCCD, rng.getrandbits(32)])
        comps = [{"name": pg.cps("c"), "format": pg.cps("XYC"), "points": [pg.cps("p"), pg.cps("q")], "limbs": [[0, 1]], "colors": [[1, 2, 3]]}]
        F = rng.choice([1, 2, 3])
        return {"kind": "version", "version": w, "dims": [1, 2, 3], "comps": comps, "fps": 25, "field": F, "P": 1,
                "body": rng.choice(["v02", "v01"]),
                "data": [[f32w(float(i + 4 * f)) for i in range(4)] for f in range(F)], "conf": [[f32w(1.0), 0] for f in range(F)], "edge": "none"}

    def gen_args(self, rng, F, fps, per_frame, hdr_end):
        """window arguments for a legacy file of F frames: frame bounds, time bounds, one of each, a frame and a time bound
        for the same end (refused), starts at / beyond the last frame by frame and by time (refused), and odd ones
        (negative bounds, an end before the start) that only the model/implementation correspondence looks at"""
        kind = rng.choice(["none"] * 4 + ["frames"] * 6 + ["time"] * 4 + ["mixed"] * 2 + ["beyond"] * 2 + ["beyond-time"] * 2 + ["conflict"] * 2 + ["odd"])
        if kind == "none":
            return "none", {}
        f = max(fps, 1)

        def t_start(k):      # a time whose floor(t / 1000 * fps) is frame k (fps >= 1)
            return int(math.ceil(k * 1000.0 / f))

        def t_end(k):        # a time whose ceil(t / 1000 * fps) is frame k (fps >= 1)
            return int(math.floor(k * 1000.0 / f))
        if F == 0:
            # a file without frames: an end bound or a zero start still give the empty pose, a positive start is beyond the end
            a = rng.choice([{"end_frame": 3}, {"start_frame": 0}, {"end_time": 100}, {"start_time": 0, "end_frame": 0}, {"start_frame": 1},
                            {"start_time": 5000}, {"start_frame": 0, "start_time": 0}, {"end_frame": 0}])
            return "zero-frames-window", a
        pf_frame = max(0, (PREFETCH_DEFAULT - hdr_end - 6) // max(1, per_frame))
        cands = sorted(set([0, 1, 2, F // 2, F - 1, F, pf_frame - 1, pf_frame, pf_frame + 1, rng.randrange(0, F + 1), rng.randrange(0, F + 1)]))
        cands = [c for c in cands if 0 <= c <= F + 3]
        starts = [c for c in cands if c < F]
        if kind in ("frames", "time", "mixed"):
            s = rng.choice([None] + starts)
            e = rng.choice([None] + [c for c in cands + [F + 1, F + 1000] if (s or 0) <= c])
            if s is None and e is None:
                if rng.random() < 0.5:
                    s = rng.choice(starts)
                else:
                    e = rng.choice(cands)
            st, et = ("frame", "frame") if kind == "frames" else ("time", "time") if kind == "time" else rng.choice([("frame", "time"), ("time", "frame")])
            a = {}
            if s is not None:
                a["start_" + st] = s if st == "frame" else t_start(s)
            if e is not None:
                a["end_" + et] = e if et == "frame" else t_end(e)
        elif kind == "beyond":
            a = rng.choice([{"start_frame": F}, {"start_frame": F + 5, "end_frame": F + 9}, {"start_frame": F + 1, "end_time": t_end(F + 2)},
                            {"start_frame": 65536 + F}, {"start_frame": F, "end_frame": 0}])
        elif kind == "beyond-time":
            a = rng.choice([{"start_time": t_start(F)}, {"start_time": t_start(F + 3) + 1, "end_time": t_end(F + 9)},
                            {"start_time": t_start(F) + rng.randrange(0, 2000), "end_frame": F + 2}])
        elif kind == "conflict":
            s, e = rng.choice(starts), rng.choice(cands)
            a = rng.choice([{"start_frame": s, "start_time": t_start(s)}, {"end_frame": e, "end_time": t_end(e)},
                            {"start_frame": s, "start_time": 0, "end_frame": F}, {"start_time": t_start(s), "end_frame": e, "end_time": 10 ** 6},
                            {"start_frame": F + 7, "start_time": t_start(F + 7)}, {"start_frame": 0, "start_time": 0, "end_frame": 0, "end_time": 0}])
        else:
            a = rng.choice([{"start_frame": -1}, {"start_frame": -3, "end_frame": F}, {"start_time": -40}, {"end_frame": -1}, {"end_time": -1000},
                            {"start_frame": F - 1, "end_frame": 0}, {"start_frame": min(1, F - 1), "end_frame": min(1, F - 1)},
                            {"end_frame": 0}, {"end_time": 0}, {"start_time": rng.randrange(0, 3000), "end_time": rng.randrange(0, 3000)},
                            {"start_frame": rng.randrange(0, F + 2), "end_frame": rng.randrange(0, F + 2)}])
        return kind, a

    def finish(self, rng, case):
        file, meta = self.encode(case)
        if case["kind"] == "version":
            case["args"] = {}
            case["wkind"] = "none"
        else:
            wk, a = self.gen_args(rng, meta["F"], case["fps"], meta["per_frame"], meta["hdr_end"])
            case["args"], case["wkind"] = a, wk
        case["src"] = rng.choice(["bytes", "stream", "stream"]) if case["args"] else rng.choice(["bytes", "bytes", "stream"])
        case["memo"] = rng.choice(["empty", "empty", "same", "other"])
        return case

    def gen_cases(self, rng, tier):
        n00, n01, nbig, nver = (220, 220, 4, 100) if tier == "quick" else (3500, 3500, 30, 1500)
        for i in range(n00):
            yield self.finish(rng, self.gen_v00(rng))
        for i in range(n01):
            yield self.finish(rng, self.gen_v01(rng))
        for i in range(nbig):
            yield self.finish(rng, self.gen_v01(rng, big=True))
        for i in range(nver):
            yield self.finish(rng, self.gen_version(rng))

    # ------------------------------------------------------------------ encoding of a case
    def encode(self, case):
        key = common.case_digest({k: v for k, v in case.items() if k not in ("args", "src", "memo", "wkind")})
        hit = self._cache.get(key)
        if hit is not None:
            return hit
        h = py_header(case)
        meta = {"hdr_end": len(h)}
        if case["kind"] == "v00":
            b = py_body00(case)
            meta["F"] = len(case["frames"])
            meta["per_frame"] = max(1, (len(b) - 4) // max(1, meta["F"]))
        else:
            data, conf = expand(case["data"], "data"), expand(case["conf"], "conf")
            meta["data"], meta["conf"] = data, conf
            b = py_body02(case, data, conf) if case.get("body") == "v02" else py_body01(case, data, conf)
            T = total_points(case)
            mf = max_fmt(case)
            D = (mf - 1) if mf is not None else 0
            per = case["P"] * T * (D + 1) * 4
            meta["per_frame"] = max(1, per)
            meta["F"] = ((len(b) - 6) // per) if per > 0 else len(data)
        file = h + b
        if len(self._cache) > 64:
            self._cache.clear()
        self._cache[key] = (file, meta)
        return file, meta

    def content_tree(self, case, meta):
        hdr = [case["version"], list(case["dims"]), [[c["name"], c["format"], c["points"], c["limbs"], c["colors"]] for c in case["comps"]]]
        if case["kind"] == "v00":
            return 41, [hdr, case["fps"], case["frames"]]
        return 42, [hdr, case["fps"], case["field"], case["P"], meta["data"], meta["conf"]]

    def features(self, case):
        _, meta = self.encode(case)
        F = meta["F"]
        a = case["args"]
        wcls = case.get("wkind", "none")
        people = ""
        if case["kind"] == "v00":
            ns = [len(p) for p in case["frames"]]
            people = "people:" + ("none" if not ns or max(ns) == 0 else "some-empty" if min(ns) == 0 else "multi" if max(ns) > 1 else "one")
        fcls = "F0" if F == 0 else "F<=65535" if F <= 65535 else "F>65535"
        big = "beyond-prefetch" if (meta["hdr_end"] + 6 + F * meta["per_frame"]) > PREFETCH_DEFAULT else "inside-prefetch"
        return (case["kind"], case["edge"], case["src"], case["memo"], wcls, fcls, big, people,
                "known" if version_known(case["version"]) else "unknown-version")

    def nontrivial(self, case):
        return case["edge"] in ("none", "extra-bytes", "zero-frames")

    # ------------------------------------------------------------------ implementation
    def run_impl(self, case):
        file, meta = self.encode(case)
        fl = list(file)
        pg.set_memo(case["memo"], other_bytes=self.other, same_bytes=fl)
        at = pg.ARG_TYPES[(len(fl) + sum(v for v in (case["args"] or {}).values() if isinstance(v, int))) % len(pg.ARG_TYPES)]
        r, pulled = pg.impl_read(fl, "bytes" if case["src"] == "bytes" else "stream", case["args"], argtype=at, limit=meta.get("F") if isinstance(meta, dict) and meta.get("F") is not None else 10 ** 9)
        if r[0] == "ok":
            r[1].pop("data_dtype", None)
        out = {"read": pg.strip_err(r), "pulled": pulled if r[0] == "ok" else None}
        case["_read"] = r
        # rewrite as v0.2 and read back (full reads only: the rewrite clause is about the decoded pose)
        case["_rewrite"] = None
        if r[0] == "ok" and case["kind"] != "version" and len(file) <= 200000:
            try:
                import io
                from pose_format import Pose
                pg.set_memo(case["memo"], other_bytes=self.other, same_bytes=fl)
                args = {k: v for k, v in case["args"].items()}
                pose = Pose.read(bytes(file), **args) if case["src"] == "bytes" else Pose.read(io.BytesIO(bytes(file)), **args)
                buf = io.BytesIO()
                pose.write(buf)
                w = ["ok", list(buf.getvalue())]
            except Exception as e:
                w = ["err", type(e).__name__]
            out["write"] = pg.strip_err(w)
            if w[0] == "ok":
                pg.set_memo("empty")
                rr, _ = pg.impl_read(w[1])
                if rr[0] == "ok":
                    rr[1].pop("data_dtype", None)
                out["reread"] = pg.strip_err(rr)
                case["_rewrite"] = (w, rr)
            else:
                case["_rewrite"] = (w, None)
        return out

    # ------------------------------------------------------------------ model
    def run_model(self, case, runner):
        file, meta = self.encode(case)
        fl = list(file)
        out = {}
        if case["kind"] != "version":
            op, tree = self.content_tree(case, meta)
            enc = runner.ask([op, tree])
            if list(enc) != fl:
                i = next((k for k in range(min(len(enc), len(fl))) if enc[k] != fl[k]), min(len(enc), len(fl)))
                out["encoders_differ"] = "extracted spec encoder and the harness struct encoder differ at offset %d (lengths %d / %d)" % (i, len(enc), len(fl))
        files = [fl, self.other]
        ops = []
        if case["memo"] == "same":
            ops.append([0, 0, pg.args_tree(None)])
        elif case["memo"] == "other":
            ops.append([1, 0, pg.args_tree(None)])
        ops.append([0, 0 if case["src"] == "bytes" else 1, pg.args_tree(case["args"])])
        rep = runner.ask([40, files, ops])
        last = rep[-1]
        r = pg.result_of_tree(last[0], pg.pose_of_tree)
        out["read"] = r
        out["pulled"] = (last[1] if case["src"] != "bytes" else 0) if r[0] == "ok" else None
        if r[0] == "ok" and case["kind"] != "version" and len(fl) <= 200000:
            d = r[1]
            wp = [[int(x) for x in d["dims"]],
                  [[c["name"], c["format"], c["points"], c["limbs"], c["colors"]] for c in d["comps"]],
                  pg.b64(w2f(d["fps"])), list(d["shape"]), [pg.f32_to_b64(w) for w in d["data"]], list(d["shape"][:3]),
                  [pg.f32_to_b64(w) for w in d["conf"]]]
            w = pg.result_of_tree(runner.ask([1, wp]), lambda x: list(x))
            out["write"] = w
            if w[0] == "ok":
                rep2 = runner.ask([40, [w[1]], [[0, 0, pg.args_tree(None)]]])
                out["reread"] = pg.result_of_tree(rep2[-1][0], pg.pose_of_tree)
        return out

    def compare(self, case, io, mo):
        if "encoders_differ" in mo:
            return mo["encoders_differ"]
        if io["read"] != mo["read"]:
            if io["read"][0] == "ok" and mo["read"][0] == "ok":
                diff = [k for k in mo["read"][1] if io["read"][1].get(k) != mo["read"][1][k]]
                return "read result differs in %s" % diff
            return "read result differs (impl %s / model %s)" % (io["read"][0], mo["read"][0])
        if io["pulled"] != mo["pulled"]:
            return "bytes pulled from the stream differ: impl %s model %s" % (io["pulled"], mo["pulled"])
        if ("write" in io) != ("write" in mo):
            return "rewrite attempted on one side only"
        if "write" in io:
            a, b = io["write"], mo["write"]
            if a[0] != b[0]:
                return "rewrite: implementation %s, model %s" % (a[0], b[0])
            if a[0] == "ok":
                n = len(mo["read"][1]["data"]) + len(mo["read"][1]["conf"])
                from c01 import canon_tail
                if len(a[1]) != len(b[1]) or canon_tail(a[1], n) != canon_tail(b[1], n):
                    return "rewritten v0.2 bytes differ"
                if io.get("reread") != mo.get("reread"):
                    return "read-back of the rewritten file differs"
        return None

    # ------------------------------------------------------------------ direct oracle (implementation + struct reference only)
    def oracle(self, case):
        r = case.get("_read")
        if r is None:
            return None
        file, meta = self.encode(case)
        known = version_known(case["version"])
        if not known:
            if r[0] == "ok":
                return {"what": "a file declaring version %r was decoded instead of refused" % w2f(case["version"]), "kind": "unknown-version-accepted"}
            return None
        if case["kind"] == "version":
            return None
        a = case["args"]
        # is the file a valid legacy file at all?
        mf = max_fmt(case)
        if mf is None:
            return None
        if case["kind"] == "v00":
            if w2f(case["version"]) != 0 or any(len(c["format"]) != mf for c in case["comps"]) or mf < 2:
                return None
            v = view00(case)
        else:
            T = total_points(case)
            if case["P"] < 1 or T < 1 or mf < 2 or w2f(case["version"]) == 0:
                return None
            F = meta["F"]
            v = {"P": case["P"], "T": T, "D": mf - 1, "data": meta["data"][:F], "conf": [c[:case["P"] * T] for c in meta["conf"][:F]]}
        F = len(v["data"])
        win = resolve_window(a, float(case["fps"]), F)
        if win == "conflict":
            return None
        where = "%s %s, memo %s, args %s" % (case["kind"], case["src"], case["memo"], a)
        has_time = ("start_time" in a or "end_time" in a)

        def annotate(f):
            """does the implementation behave as if (all / the time) window arguments had not been given?"""
            f["ignored"] = self._behaves(case, r, v, (0, F))
            if has_time:
                f["time_ignored"] = self._behaves(case, r, v, resolve_window({k: x for k, x in a.items() if k in ("start_frame", "end_frame")},
                                                                               float(case["fps"]), F))
            return f
        if win == "beyond":
            return None if r[0] == "err" else annotate({"what": "a start at or beyond the last frame was accepted (%s)" % where, "kind": "start-beyond"})
        s0, e0 = win
        if e0 < s0:
            return None
        if F == 0:
            # a valid file without frames: an empty pose is what it stores
            if r[0] != "ok":
                return {"what": "a %s file with zero frames raises %s" % (case["kind"], r[1]), "kind": "zero-frames"}
        if e0 == s0 and F > 0:
            return None      # an empty window of a non-empty file is not part of the claim
        if r[0] != "ok":
            return annotate({"what": "valid legacy file, window [%d,%d) of %d frames: read raises %s (%s)" % (s0, e0, F, r[1], where), "kind": "raises"})
        exp = dump_of_view(case, v, s0, e0)
        got = r[1]
        diff = [k for k in exp if got.get(k) != exp[k]]
        if diff:
            return annotate({"what": "decoded values differ from the stored ones in %s (window [%d,%d) of %d frames; %s)" % (diff, s0, e0, F, where),
                             "kind": "wrong-values", "fields": diff})
        # frames without people come back empty (all points missing)
        if case["kind"] == "v00":
            T = v["T"]
            for i, f in enumerate(range(s0, e0)):
                if v["empty"][f] and got["mask"][i * T:(i + 1) * T] != [1] * T:
                    return {"what": "frame %d has no people but is not returned as missing (%s)" % (f, where), "kind": "empty-frame-not-missing"}
        # rewrite clause
        rw = case.get("_rewrite")
        if rw is not None:
            w, rr = rw
            if w[0] != "ok":
                return {"what": "the decoded pose cannot be written: %s (%s)" % (w[1], where), "kind": "rewrite-raises"}
            if rr[0] != "ok":
                return {"what": "the rewritten v0.2 file cannot be read: %s (%s)" % (rr[1], where), "kind": "rewrite-unreadable"}
            want = dict(got)
            want["version"] = V02_WORD
            d2 = [k for k in want if rr[1].get(k) != want[k]]
            if d2:
                return {"what": "the rewritten v0.2 file reads back differently in %s (%s)" % (d2, where), "kind": "rewrite-differs", "fields": d2}
        return None

    def _behaves(self, case, r, v, win):
        """the read result is what the window [win] (or its rejection) would give"""
        if win == "conflict":
            return False
        if win == "beyond":
            return r[0] == "err"
        s0, e0 = win
        if e0 < s0 or (e0 == s0 and len(v["data"]) > 0):
            return False         # (the whole of a file without frames is the empty window [0, 0))
        if r[0] != "ok":
            return False
        exp = dump_of_view(case, v, s0, e0)
        return all(r[1].get(k) == exp[k] for k in exp)

    def classify(self, case, f):
        k = f.get("kind", "other")
        if k in ("wrong-values", "start-beyond", "raises") and case["kind"] == "v00" and f.get("ignored") and case["args"]:
            return "v00-window-ignored"
        if k in ("wrong-values", "start-beyond", "raises") and case["kind"] == "v01" and f.get("time_ignored"):
            return "v01-time-window-ignored"
        if k == "zero-frames" and case["kind"] == "v00":
            return "v00-zero-frames-raises"
        if k == "rewrite-differs" and f.get("fields") == ["mask"] and case["kind"] == "v00":
            return "v00-rewrite-mask"
        if k in ("wrong-values", "raises", "start-beyond") and case["kind"] == "v01" and case["src"] == "stream" and case["args"]:
            return "v01-stream-window-" + k
        return "%s-%s" % (case["kind"], k)


PROP = C04
