"""C05 - the JavaScript reader and the Python reader agree on every file.

Implementation side: the REAL src/js/pose_format/src/parser.ts, type-stripped by js/strip_types.js (fail closed through
`node --check`) and executed by node 20 against js/binary_parser_shim.js (our re-implementation of the subset of
binary-parser 2.2.1 that parser.ts uses - the package is not installed: the claim is partial in exactly that sense), and
the real Python reader (Pose.read / PoseHeader.read).
Correspondence: extracted Gallina model of parser.ts (coq/model/C05_JsParser.v, runner "c05") against the node dump, value by value.
Oracle: the property statement on the two implementations alone (node dump vs Pose.read dump), no Coq model involved.
Files: v0.2 written by Pose.write from posegen cases; v0.1 / v0.0 from the reference encoders below (docs/specs/v0.1.md, v0.0.md)."""
import json
import os
import struct
import subprocess

import numpy as np

import common
import posegen as pg
import translate_c05

NAN32 = 0x7FC00000
V01_WORD = struct.unpack("<I", struct.pack("<f", 0.1))[0]
V02_WORD = struct.unpack("<I", struct.pack("<f", 0.2))[0]
KEY_F5 = "js-format-confidence-letter-not-last"
KEY_BOM = "js-leading-bom-stripped"


# ------------------------------------------------------------------------------------------------ reference encoders
def enc_str(cpl):
    b = pg.from_cps(cpl).encode("utf-8")
    return struct.pack("<H", len(b)) + b


def enc_header(version_word, dims, comps):
    """docs/specs/v0.*.md '# Header'"""
    out = [struct.pack("<I", version_word), struct.pack("<HHH", *dims), struct.pack("<H", len(comps))]
    for c in comps:
        out.append(enc_str(c["name"]))
        out.append(enc_str(c["format"]))
        out.append(struct.pack("<HHH", len(c["points"]), len(c["limbs"]), len(c["colors"])))
        for p in c["points"]:
            out.append(enc_str(p))
        for a, b in c["limbs"]:
            out.append(struct.pack("<HH", a, b))
        for r, g, b in c["colors"]:
            out.append(struct.pack("<HHH", r, g, b))
    return b"".join(out)


def words_bytes(ws):
    return np.array(ws, dtype="<u4").tobytes()


def enc_v01(case):
    """docs/specs/v0.1.md: ushort fps, ushort frames, ushort people, all coordinates, all confidences"""
    F, P, T, D = case["shape"]
    return (enc_header(V01_WORD, case["dims"], case["comps"]) + struct.pack("<HHH", case["fps"], F, P)
            + words_bytes(case["data"]) + words_bytes(case["conf"]))


def enc_v00(case):
    """docs/specs/v0.0.md: ushort fps, ushort frames; per frame ushort people; per person short id, then per component
    per point the floats in format order"""
    out = [enc_header(case.get("version_word", 0), case["dims"], case["comps"]), struct.pack("<HH", case["fps"], len(case["frames"]))]
    for people in case["frames"]:
        out.append(struct.pack("<H", len(people)))
        for pid, words in people:
            out.append(struct.pack("<h", pid))
            out.append(words_bytes(words))
    return b"".join(out)


# ------------------------------------------------------------------------------------------------ canonical values
def f64hex_of_float(x):
    if x != x:
        return "nan"
    return struct.pack(">d", x).hex()


def widen(w):
    return struct.unpack("<f", struct.pack("<I", w))[0]


def canon_js(v):
    """node dump -> canonical value"""
    if "n" in v:
        return ("n", v["n"])
    if "s" in v:
        return ("s", tuple(v["s"]))
    if "a" in v:
        return ("a", tuple(canon_js(x) for x in v["a"]))
    if "o" in v:
        return ("o", tuple(sorted((tuple(k), canon_js(x)) for k, x in v["o"])))
    if "u" in v:
        return ("u",)
    raise ValueError("bad dump %r" % (v,))


def canon_model(t):
    """model tree -> canonical value"""
    tag = t[0]
    if tag == 0:
        return ("n", f64hex_of_float(float(t[1])))
    if tag == 1:
        return ("n", f64hex_of_float(widen(t[1])))
    if tag == 2:
        return ("s", tuple(t[1]))
    if tag == 3:
        return ("a", tuple(canon_model(x) for x in t[1]))
    if tag == 4:
        return ("o", tuple(sorted((tuple(k), canon_model(x)) for k, x in t[1])))
    if tag == 5:
        return ("u",)
    raise ValueError("bad tree")


def f32_of_canon(v):
    """canonical number -> float32 word (NaN canonical); None when it is not a number or not a float32 value"""
    if v[0] != "n":
        return None
    if v[1] == "nan":
        return NAN32
    x = struct.unpack(">d", bytes.fromhex(v[1]))[0]
    try:
        w = struct.unpack("<I", struct.pack("<f", x))[0]
    except OverflowError:
        return None
    return w if struct.pack(">d", widen(w)).hex() == v[1] else None


def int_of_canon(v):
    if v[0] != "n" or v[1] == "nan":
        return None
    x = struct.unpack(">d", bytes.fromhex(v[1]))[0]
    return int(x) if x == int(x) and abs(x) < 2 ** 53 else None


def oget(v, name):
    if v[0] != "o":
        return None
    k = tuple(pg.cps(name)) if isinstance(name, str) else tuple(name)
    for kk, x in v[1]:
        if kk == k:
            return x
    return None


class Node:
    def __init__(self, parser_js):
        self.p = subprocess.Popen(["node", os.path.join(common.ROOT, "js", "run_parser.js"), parser_js],
                                  stdin=subprocess.PIPE, stdout=subprocess.PIPE, stderr=subprocess.PIPE, text=True, bufsize=1 << 20)

    def ask(self, data, frames):
        self.p.stdin.write(json.dumps({"hex": bytes(data).hex(), "frames": list(frames)}) + "\n")
        self.p.stdin.flush()
        line = self.p.stdout.readline()
        if not line:
            raise RuntimeError("node died: " + self.p.stderr.read()[-500:])
        return json.loads(line)

    def close(self):
        try:
            self.p.stdin.close()
            self.p.wait(timeout=5)
        except Exception:
            self.p.kill()


# ------------------------------------------------------------------------------------------------ the check
def fmt_class(fmt):
    """'ok': C is the last letter, occurs once, letters distinct | 'dup': repeated letter (access by letter needs distinct
    letters) | 'f5': the confidence letter is not exactly the last one"""
    if len(set(fmt)) != len(fmt):
        return "dup"
    if not fmt or fmt[-1] != 67 or 67 in fmt[:-1]:
        return "f5"
    return "ok"


class C05(common.Prop):
    ID = "C05"
    RUNNER = "c05"
    MODEL_FILES = ["model/C05_JsParser.v", "model/C05_Spec.v", "model/C05_Run.v", "base/Bytes.v", "base/Utf8.v", "base/F32.v", "model/Codec.v"]
    RULE = ("files: v0.2 written by Pose.write from posegen cases over the C01 space (1..4 components, 0..5 points, Unicode names, "
            "F,P incl. 0, D 1..4, mixed format lengths, float32 bit-pattern classes, ~10% random letter orders), v0.1 and v0.0 from "
            "the reference encoders (v0.1: 16-bit frame counts up to 65535; v0.0: 0..3 people per frame); every frame dumped (a sample "
            "of frames above 48); version words around the accepted ones for the model/JS dispatch; non-trivial = node parsed the file "
            "and it has at least one cell; distinct by content hash")
    TRUSTED = ["Coq 8.16.1 kernel (vm_compute for the dispatch words and the refuted witnesses)",
               "harness/translate_c05.py (fail-closed tokeniser/translator of parser.ts)",
               "js/strip_types.js (regex type stripper, fail-closed through node --check), js/run_parser.js (dumper)",
               "js/binary_parser_shim.js: OUR re-implementation of the subset of binary-parser 2.2.1 used by parser.ts - the real package is not installed",
               "extraction: ExtrOcamlBasic only; runner/driver.ml", "node 20 DataView / Float32Array / TextDecoder"]
    ASSUMPTIONS = ["binary-parser 2.2.1 behaves as js/binary_parser_shim.js on the calls parser.ts makes (string fields decoded by TextDecoder('utf8'): one leading U+FEFF dropped)",
                   "component names are distinct and are not '__proto__'; the letters of a format are distinct (access by name, as for C11)",
                   "CPython struct / numpy float32 views as in base/F32.v; NaN payloads compared as one word"]

    def translate(self):
        g = dict(translate_c05.gen())
        import translate_py
        g.update(dict(translate_py.codec_gen()))       # the Python reader this property compares parsePose with
        return g

    def translate_outputs(self):
        return ["gen/Gen_C05.v", "gen/Gen_Codec.v"]

    def setup(self):
        self.node = None
        try:
            self.node = Node(translate_c05.stripped_parser())
        except Exception as e:  # reported per case
            self.node_error = repr(e)

    def teardown(self):
        if self.node:
            self.node.close()

    # ---- generation
    def gen_cases(self, rng, tier):
        n = 1500 if tier == "quick" else 14000
        for i in range(n):
            r = rng.random()
            if r < 0.45:
                yield self.gen_v02(rng)
            elif r < 0.70:
                yield self.gen_v01(rng)
            elif r < 0.92:
                yield self.gen_v00(rng)
            else:
                yield self.gen_version(rng)
        # v0.1 frame counts at the edge of the 16-bit field (one point, so the file stays small)
        for F in ([65535] if tier == "quick" else [65535, 65534, 32768, 40000]):
            c = self.gen_v01(rng, frames=F)
            yield c

    def _comps(self, rng, D, same_len=False, maxc=4):
        ncomp = rng.choice([1, 1, 2, 2, 3, maxc])
        uni = rng.random() < 0.5
        comps = []
        for i in range(ncomp):
            fl = D + 1 if (same_len or i == 0 or rng.random() < 0.6) else rng.randrange(1, D + 2)
            comps.append(pg.gen_component(rng, rng.randrange(0, 6), fl, uni))
        if rng.random() < 0.15 and ncomp > 1:          # several components with one name
            comps[-1]["name"] = list(comps[0]["name"])
        if rng.random() < 0.03:
            c = rng.choice(comps)
            tgt = rng.choice(["name", "point"])
            if tgt == "name" or not c["points"]:
                c["name"] = [0xFEFF] + c["name"]
            else:
                c["points"][0] = [0xFEFF] + c["points"][0]
        return comps

    def _sample_frames(self, rng, F):
        if F <= 48:
            return list(range(F))
        return sorted(set([0, 1, F - 1, F - 2] + [rng.randrange(F) for _ in range(8)]))

    def gen_v02(self, rng):
        case = pg.gen_pose_case(rng, edge=0.08)
        if rng.random() < 0.04 and case["comps"]:
            c = rng.choice(case["comps"])
            c["name"] = [0xFEFF] + c["name"]
        if rng.random() < 0.15 and len(case["comps"]) > 1:
            case["comps"][-1]["name"] = list(case["comps"][0]["name"])
        case["kind"] = "v02"
        F = case["shape"][0] if case["shape"] else 0
        case["dump"] = self._sample_frames(rng, F)
        return case

    def gen_v01(self, rng, frames=None):
        D = rng.choice([1, 2, 2, 2, 3, 3, 4])
        if frames is None:
            comps = self._comps(rng, D)
            F = rng.choice([0, 1, 1, 2, 3, 5])
            P = rng.choice([1, 1, 1, 2, 3])
        else:
            comps = [pg.gen_component(rng, 1, D + 1, False)]
            F, P = frames, 1
        T = sum(len(c["points"]) for c in comps)
        dims = [rng.choice([0, 1, 640, 65535, rng.randrange(0, 65536)]) for _ in range(3)]
        n, nc = F * P * T * D, F * P * T
        if n > 50000:
            data = [(0x3F800000 + (k * 2654435761) % 0x00800000) for k in range(n)]
            conf = [0x3F000000 if k % 7 else 0 for k in range(nc)]
        else:
            data = [pg.f32_word_of_float(pg.from_b64(pg.gen_float_word(rng))) if rng.random() < 0.2 else rng.choice(pg.F32_SPECIAL + [rng.getrandbits(32)])
                    for _ in range(n)]
            conf = [rng.choice([0, 0x80000000, 0x3F800000, 0x3F000000, 0x3E4CCCCD, 0xBF800000, NAN32, rng.getrandbits(32)]) for _ in range(nc)]
        return {"kind": "v01", "dims": dims, "comps": comps, "fps": rng.choice([0, 1, 24, 25, 30, 60, 65535, rng.randrange(65536)]),
                "shape": [F, P, T, D], "data": data, "conf": conf, "dump": self._sample_frames(rng, F)}

    def gen_v00(self, rng):
        D = rng.choice([1, 2, 2, 2, 3])
        comps = self._comps(rng, D, same_len=rng.random() < 0.9)
        nfl = sum(len(c["points"]) * len(c["format"]) for c in comps)
        F = rng.choice([0, 1, 1, 2, 3, 4])
        frames = []
        for _ in range(F):
            people = []
            for _ in range(rng.choice([0, 1, 1, 1, 2, 3])):
                words = [rng.choice([0, 0x80000000, 0x3F800000, 0xBF800000, NAN32, 0x42C80000, rng.getrandbits(32), rng.getrandbits(32)]) for _ in range(nfl)]
                people.append([rng.choice([0, 1, -1, 7, -32768, 32767]), words])
            frames.append(people)
        dims = [rng.choice([0, 1, 640, 65535, rng.randrange(0, 65536)]) for _ in range(3)]
        c = {"kind": "v00", "dims": dims, "comps": comps, "fps": rng.choice([0, 24, 25, 30, 65535]), "frames": frames, "dump": list(range(F))}
        if rng.random() < 0.1:
            c["version_word"] = 0x80000000          # -0.0 is version 0 for both readers
        return c

    def gen_version(self, rng):
        """a small v0.1-layout or v0.0-layout file whose version float is near an accepted one (dispatch of model vs JS;
        the property itself only speaks about the three written versions)"""
        base = self.gen_v01(rng) if rng.random() < 0.7 else self.gen_v00(rng)
        near = [0x00000000, 0x80000000, 0x00000001, 0x3A03126F, 0x3A03126E, 0x3A031270, 0xBA03126F, 0xBA031270, 0x3DCCCCCD, 0x3DCCCCCC, 0x3DCCCCCE,
                0x3DCBC6A8, 0x3DCBC6A7, 0x3DCDD2F1, 0x3DCDD2F2, 0x3DCDD2F3, 0x3E4CCCCD, 0x3E4C49BA, 0x3E4C49BB, 0x3E4D4FDF, 0x3E4D4FE0, 0x3E99999A, 0x7FC00000,
                0x7F800000, 0x3F800000, 0x3DCCCCCD + rng.randrange(-70000, 70000), 0x3E4CCCCD + rng.randrange(-35000, 35000)]
        base["patch_version"] = rng.choice(near)
        base["kind"] = base["kind"] + "+version"
        return base

    def file_of(self, case):
        if "_file" in case:
            return case["_file"]
        kind = case["kind"].split("+")[0]
        if kind == "v02":
            w = pg.impl_write(case)
            f = bytes(w[1]) if w[0] == "ok" else None
        elif kind == "v01":
            f = enc_v01(case)
        else:
            f = enc_v00(case)
        if f is not None and "patch_version" in case:
            f = struct.pack("<I", case["patch_version"]) + f[4:]
        case["_file"] = f
        return f

    def features(self, case):
        kind = case["kind"]
        comps = case["comps"]
        fc = sorted({fmt_class(c["format"]) for c in comps}) if comps else ["none"]
        names = [tuple(c["name"]) for c in comps]
        bom = any(s[:1] == [0xFEFF] for c in comps for s in [c["name"], c["format"]] + c["points"])
        if kind.startswith("v00"):
            shape = (len(case["frames"]),)
        else:
            shape = tuple(min(x, 3) for x in case["shape"][:2]) if len(case.get("shape", [])) >= 2 else ()
        try:
            self.run_impl(case)
            js = "js-ok" if (case.get("_js") and "ok" in case["_js"]) else ("no-file" if case.get("_file") is None else "js-throws")
        except Exception:
            js = "js-?"
        py = self.py_dump(case)
        py = "no-file" if py is None else ("py-raises" if "err" in py else "py-ok")
        return (kind, "/".join(fc), "dupname" if len(set(names)) != len(names) else "names-ok", "bom" if bom else "-",
                len({len(c["format"]) for c in comps}) > 1, shape, case.get("edge", "none") if kind == "v02" else "-", js, py)

    def nontrivial(self, case):
        """node parsed the file and it has at least one (frame, person, point) cell"""
        try:
            self.run_impl(case)
        except Exception:
            return False
        r = case.get("_js")
        if not (r and "ok" in r):
            return False
        kind = case["kind"].split("+")[0]
        T = sum(len(c["points"]) for c in case["comps"])
        if kind == "v00":
            return T > 0 and any(len(people) > 0 for people in case["frames"])
        sh = case.get("shape") or []
        return len(sh) == 4 and sh[0] > 0 and sh[1] > 0 and T > 0

    # ---- implementation: node on the real parser.ts, and the Python reader
    def run_impl(self, case):
        if "_impl_out" in case:
            return case["_impl_out"]
        f = self.file_of(case)
        if f is None:
            case["_js"] = None
            case["_impl_out"] = {"file": None}
            return case["_impl_out"]
        if self.node is None:
            raise RuntimeError("node could not be started: %s" % getattr(self, "node_error", "?"))
        r = self.node.ask(f, case["dump"])
        case["_js"] = r
        if "ok" not in r:
            case["_impl_out"] = {"file": len(f), "js": ["err"]}
            return case["_impl_out"]
        o = r["ok"]
        out = {"file": len(f),
               "js": ["ok", canon_js(o["header"]), canon_js(o["info"]), canon_js(o["nframes"]), tuple((i, canon_js(v)) for i, v in o["frames"])]}
        case["_jsc"] = out["js"]
        case["_impl_out"] = out
        return out

    def run_model(self, case, runner):
        f = self.file_of(case)
        if f is None:
            return {"file": None}
        t = runner.ask([1, list(f), list(case["dump"])])
        if t[0] != 1:
            return {"file": len(f), "js": ["err"]}
        h, info, nfr, frames = t[1]
        return {"file": len(f), "js": ["ok", canon_model(h), canon_model(info), ("n", f64hex_of_float(float(nfr))),
                                       tuple((i, canon_model(v)) for i, v in frames)]}

    def compare(self, case, impl_out, model_out):
        if impl_out == model_out:
            return None
        a, b = impl_out.get("js"), model_out.get("js")
        if a is None or b is None or a[0] != b[0]:
            return "node %s, model %s" % (a and a[0], b and b[0])
        for name, x, y in zip(("header", "info", "nframes", "frames"), a[1:], b[1:]):
            if x != y:
                return "parsePose result differs from the model in %s" % name
        return "differs"

    # ---- direct oracle: node dump against Pose.read dump (the statement itself; no Coq model)
    def py_read(self, f):
        from pose_format import Pose
        from pose_format.pose_header import PoseHeader, PoseHeaderCache
        from pose_format.utils.reader import BufferReader
        PoseHeaderCache.clear_cache()
        try:
            rd = BufferReader(bytes(f))
            PoseHeader.read(rd)
            hl = rd.read_offset
            PoseHeaderCache.clear_cache()
            d = pg.dump_pose(Pose.read(bytes(f)))
            # the Python reader's answer must be THE answer for this file: the same after reads of the same file and of a file
            # whose header differs in the version word only (JavaScript is stateless; a history-dependent Python reading
            # disagrees with it in some process)
            for st in ("same", "twin"):
                pg.set_memo(st, same_bytes=f)
                try:
                    d2 = pg.dump_pose(Pose.read(bytes(f)))
                except Exception as e:
                    d2 = {"err": type(e).__name__}
                if d2 != d:
                    d["_memo_dep"] = (st, [k for k in d if d2.get(k) != d[k]][:4])
                    break
            d["headerLength"] = hl
            return d
        except Exception as e:
            return {"err": type(e).__name__}
        finally:
            PoseHeaderCache.clear_cache()

    def py_dump(self, case):
        if "_pyd" not in case:
            f = self.file_of(case)
            case["_pyd"] = None if f is None else self.py_read(f)
        return case["_pyd"]

    def oracle(self, case):
        f = self.file_of(case)
        if f is None:
            return None                       # the Python writer refused the pose: no file
        py = self.py_dump(case)
        if "err" in py:
            return None                       # no Python reading to agree with (outside the property's files)
        kind = case["kind"].split("+")[0]
        vclass = {0: "v00", 0x80000000: "v00", V01_WORD: "v01", V02_WORD: "v02"}.get(py["version"])
        if vclass is None or vclass != kind:
            return None                       # the property speaks about v0.0 / v0.1 / v0.2 files (a body laid out for another
                                              # version than the header says is not a file of the reference encoders)
        if py.get("_memo_dep"):
            st, fields = py["_memo_dep"]
            return {"what": "Pose.read of this file returns different %s after an earlier read (%s): the JavaScript reader cannot agree "
                            "with both" % (fields, "the same file" if st == "same" else "a file with the same header and another version word"),
                    "fields": ["python-history-" + st]}
        js = case.get("_jsc")
        if js is None:
            return {"what": "Pose.read accepts the file, parsePose throws: %s" % (case.get("_js") or {}).get("err"), "fields": ["raises"]}
        _, h, info, nfr, frames = js
        bad = []

        def chk(name, got, exp):
            if got != exp:
                bad.append((name, got, exp))
        chk("version", f32_of_canon(oget(h, "version") or ("u",)), py["version"])
        for nm, v in zip(("width", "height", "depth"), py["dims"]):
            chk(nm, int_of_canon(oget(h, nm) or ("u",)), v)
        chk("headerLength", int_of_canon(oget(h, "headerLength") or ("u",)), py["headerLength"])
        chk("_components", int_of_canon(oget(h, "_components") or ("u",)), len(py["comps"]))
        jcomps = oget(h, "components")
        jcomps = list(jcomps[1]) if jcomps and jcomps[0] == "a" else []
        chk("components.length", len(jcomps), len(py["comps"]))
        for ci, (jc, pc) in enumerate(zip(jcomps, py["comps"])):
            chk("comp%d.name" % ci, oget(jc, "name"), ("s", tuple(pc["name"])))
            chk("comp%d.format" % ci, oget(jc, "format"), ("s", tuple(pc["format"])))
            chk("comp%d.points" % ci, oget(jc, "points"), ("a", tuple(("s", tuple(p)) for p in pc["points"])))
            jl = oget(jc, "limbs")
            chk("comp%d.limbs" % ci, [[int_of_canon(oget(x, "from") or ("u",)), int_of_canon(oget(x, "to") or ("u",))] for x in jl[1]] if jl and jl[0] == "a" else None,
                pc["limbs"])
            jk = oget(jc, "colors")
            chk("comp%d.colors" % ci, [[int_of_canon(oget(x, k) or ("u",)) for k in "RGB"] for x in jk[1]] if jk and jk[0] == "a" else None,
                pc["colors"])
        F, P, T, D = py["shape"]
        chk("fps", f32_of_canon(oget(info, "fps") or ("u",)), py["fps"])
        chk("frames", int_of_canon(nfr), F)
        chk("_frames", int_of_canon(oget(info, "_frames") or ("u",)), F)
        if vclass != "v00":
            chk("_people", int_of_canon(oget(info, "_people") or ("u",)), P)
        # cells
        names = [tuple(c["name"]) for c in py["comps"]]
        data = py["data"]
        conf = py["conf"]
        cells = 0
        for i, fr in frames:
            people = oget(fr, "people")
            people = list(people[1]) if people and people[0] == "a" else None
            if people is None:
                bad.append(("frame%d.people" % i, None, "array"))
                continue
            if vclass == "v00":
                chk("frame%d._people" % i, int_of_canon(oget(fr, "_people") or ("u",)), len(people))
                people = people[:1]          # Python keeps the first person of each frame
            else:
                chk("frame%d.people.length" % i, len(people), P)
            for j, person in enumerate(people):
                off = 0
                for pc in py["comps"]:
                    npts = len(pc["points"])
                    fmt = pc["format"]
                    if names.count(tuple(pc["name"])) == 1 and fmt_class(fmt) != "dup" and tuple(pc["name"]) != tuple(pg.cps("__proto__")):
                        jp = oget(person, pc["name"])
                        jp = list(jp[1]) if jp and jp[0] == "a" else None
                        if jp is None or len(jp) != npts:
                            bad.append(("cell-count", None if jp is None else len(jp), npts))
                        else:
                            for l, pt in enumerate(jp):
                                base = ((i * P + j) * T + off + l)
                                exp = {}
                                beyond = set()     # letters naming a coordinate Python does not have (index >= D): no claim
                                if vclass == "v00":
                                    # interleaved floats: Python takes floats 0 .. len-2 as coordinates, the last as confidence
                                    for d, ch in enumerate(fmt[:-1]):
                                        exp[(ch,)] = data[base * D + d] if d < D else None
                                    if fmt:
                                        exp[(fmt[-1],)] = conf[base]
                                else:
                                    # the k-th coordinate letter (letters other than "C", in format order) names coordinate k
                                    k = 0
                                    for ch in fmt:
                                        if ch == 67:
                                            continue
                                        if k < D:
                                            exp[(ch,)] = data[base * D + k]
                                        else:
                                            beyond.add((ch,))
                                        k += 1
                                    exp[(67,)] = conf[base]
                                got = {k: f32_of_canon(x) for k, x in pt[1] if k not in beyond} if pt[0] == "o" else None
                                cells += 1
                                if got != exp:
                                    bad.append(("cell", (i, j, tuple(pc["name"]), l, got), exp))
                    off += npts
        case["_cells"] = cells
        if not bad:
            return None
        fields = sorted({b[0].split(".")[-1] if b[0].startswith("comp") else b[0] for b in bad})
        return {"what": "parsePose and Pose.read disagree on %s" % fields, "fields": fields, "first": repr(bad[0])[:700], "version": vclass}

    def classify(self, case, failure):
        fields = failure.get("fields") or []
        comps = case["comps"]
        strings = [s for c in comps for s in [c["name"], c["format"]] + c["points"]]
        if any(s[:1] == [0xFEFF] for s in strings) and set(fields) <= {"name", "format", "points", "cell-count", "cell"}:
            return KEY_BOM
        if set(fields) <= {"cell"} and failure.get("version") != "v00" and any(fmt_class(c["format"]) == "f5" for c in comps):
            return KEY_F5
        return "js-python-" + (fields or ["raises"])[0]


PROP = C05
