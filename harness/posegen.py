"""Pose generation over the C01 input space, conversion to model trees, and drivers / dumpers for the
implementation (Pose.write / Pose.read).  Shared by the byte-layer checks."""
import io
import math
import struct
import warnings

import numpy as np
import numpy.ma as ma

warnings.simplefilter("ignore")

NAN32 = 0x7FC00000


def b64(x):
    return struct.unpack("<Q", struct.pack("<d", float(x)))[0]


def from_b64(w):
    return struct.unpack("<d", struct.pack("<Q", w))[0]


def f32_word_of_float(x):
    """float32 word of a Python float (as astype(float32) would give), NaN canonical."""
    w = int(np.array([x], dtype=np.float64).astype(np.float32).view(np.uint32)[0])
    return canon32(w)


def canon32(w):
    return NAN32 if (w & 0x7FFFFFFF) > 0x7F800000 else w


def cps(s):
    return [ord(c) for c in s]


def from_cps(l):
    return "".join(chr(c) for c in l)


# ---------------------------------------------------------------------------------------------
# generators
ASCII_NAMES = ["pose_keypoints_2d", "face", "hand_left", "hand_right", "A", "", "NOSE", "x y", "BODY_135"]
UNI_POOL = [0x41, 0x7A, 0x7F, 0x80, 0xE9, 0x7FF, 0x800, 0x20AC, 0xD7FF, 0xE000, 0xFFFD, 0xFFFF, 0x10000, 0x1F600, 0x10FFFF,
            0x5D0, 0x4E2D, 0x3042]
F32_SPECIAL = [0x00000000, 0x80000000, 0x00000001, 0x807FFFFF, 0x00800000, 0x7F7FFFFF, 0xFF7FFFFF, 0x7F800000, 0xFF800000,
               0x7FC00000, 0x3F800000, 0xBF800000, 0x3DCCCCCD, 0x42C80000]


def gen_name(rng, kind=None):
    kind = kind or rng.choice(["ascii"] * 5 + ["uni"] * 4 + ["empty"])
    if kind == "empty":
        return []
    if kind == "ascii":
        return cps(rng.choice(ASCII_NAMES)) if rng.random() < 0.6 else [rng.randrange(0x20, 0x7F) for _ in range(rng.randrange(1, 9))]
    if rng.random() < 0.2:
        # valid UTF-8 that is NOT in a Unicode normal form (decomposed accents, compatibility singletons, Hangul jamo): names are
        # sequences of code points, stored and returned as they are
        return list(rng.choice([[0x65, 0x301], [0x41, 0x30A, 0x6E], [0x212B], [0x2126, 0x61], [0x1100, 0x1161], [0x6F, 0x308, 0x301], [0xFB01, 0x78],
                                [0xFEFF, 0x61], [0xFEFF], [0x62, 0xFEFF]]))     # U+FEFF is a code point like any other, first or not
    return [rng.choice(UNI_POOL) for _ in range(rng.randrange(1, 6))]


def f32_to_b64(w):
    return b64(struct.unpack("<f", struct.pack("<I", w))[0])


def gen_float_word(rng, conf=False):
    """binary64 word of a data/confidence value; mostly float32-representable"""
    r = rng.random()
    if conf:
        if r < 0.35:
            return b64(0.0)
        if r < 0.40:
            return b64(-0.0)
        if r < 0.74:
            return f32_to_b64(rng.choice([0x3F800000, 0x3F000000, 0x3E4CCCCD, 0x3F7FFFFF]))
        if r < 0.80:
            # non-zero confidences next to zero: the point is observed (missing means confidence == 0, nothing looser)
            return rng.choice([b64(3e-9), b64(-2e-10), b64(1e-30), b64(1e-8), f32_to_b64(0x00800000), f32_to_b64(0x80800000),
                               f32_to_b64(0x00000001), f32_to_b64(0x322BCC77)])
    if r < 0.15:
        return f32_to_b64(rng.choice(F32_SPECIAL))
    if r < 0.75:
        return f32_to_b64(rng.getrandbits(32))
    if r < 0.85:
        return b64(rng.uniform(-1000, 1000))       # genuine double: needs rounding
    if r < 0.90:
        return b64(rng.choice([1e39, -1e39, 3.4028235677973366e38, 3.4028234e38, 1e-46, 7e-46, 1.1754943e-38]))
    return rng.getrandbits(64)


def gen_component(rng, npoints, fmt_len, uni):
    name = gen_name(rng, None if uni else "ascii")
    letters = "XYZWC"
    fmt = cps(("XYZW"[:fmt_len - 1] + "C") if fmt_len >= 1 else "")
    if rng.random() < 0.1 and fmt_len >= 1:
        fmt = [rng.choice(cps(letters)) for _ in range(fmt_len)]
    points = [gen_name(rng, None if uni else "ascii") for _ in range(npoints)]
    if npoints >= 2 and rng.random() < 0.15:
        # two names that are digit reversals of each other: exchanging them gives a header of the same length and the same
        # bytes in another order (see anagram_case) - a different skeleton that only a real digest of the bytes tells apart
        i, j = rng.sample(range(npoints), 2)
        points[i], points[j] = cps("p01"), cps("p10")
    nl = rng.randrange(0, 4)
    limbs = [[rng.randrange(0, max(1, npoints)), rng.randrange(0, max(1, npoints))] for _ in range(nl)]
    if nl and rng.random() < 0.15:
        # the format stores limb ends as unsigned 16-bit words and the writer does not compare them with the number of points:
        # every word value must survive, in particular those with the top bit set
        limbs[rng.randrange(nl)][rng.randrange(2)] = rng.choice([32767, 32768, 65535, 255, 256, rng.randrange(0, 65536)])
    nc = nl if rng.random() < 0.8 else rng.randrange(0, 4)
    colors = [[rng.randrange(0, 256) for _ in range(3)] for _ in range(nc)]
    if nc and rng.random() < 0.15:
        colors[rng.randrange(nc)][rng.randrange(3)] = rng.choice([256, 32767, 32768, 65535, rng.randrange(0, 65536)])
    return {"name": name, "format": fmt, "points": points, "limbs": limbs, "colors": colors}


def gen_pose_case(rng, max_pts=5, max_frames=4, max_people=3, edge=0.25, dims_choices=(1, 2, 2, 2, 3, 3, 4)):
    """A case of the C01 space (mostly representable, a fraction with one unrepresentable feature)."""
    D = rng.choice(dims_choices)
    ncomp = rng.choice([1, 1, 2, 2, 3, 4])
    uni = rng.random() < 0.5
    comps = []
    for i in range(ncomp):
        fl = D + 1 if (i == 0 or rng.random() < 0.6) else rng.randrange(1, D + 2)
        comps.append(gen_component(rng, rng.randrange(0, max_pts + 1), fl, uni))
    T = sum(len(c["points"]) for c in comps)
    F = rng.choice([0, 1, 1, 2, 3, max_frames])
    P = rng.choice([0, 1, 1, 1, 2, max_people])
    dims = [rng.choice([0, 1, 640, 65535, rng.randrange(0, 65536)]) for _ in range(3)]
    fps = b64(rng.choice([30.0, 29.97, 25.0, 0.0, 1e-3, 24, 59.94, 1.5, 30000 / 1001, 24000 / 1001, 12.345678]))
    case = {"dims": dims, "comps": comps, "fps": fps, "shape": [F, P, T, D], "cshape": [F, P, T], "dtype": rng.choice(["f32", "f32", "f64", "f64", ">f4", ">f8"]),
            "edge": "none"}
    # how the caller holds limbs / colours / dimensions: Python ints in tuples, or NumPy integer arrays / scalars (what
    # arithmetic on a header that was read leaves behind).  Same integers either way: accepted or refused alike.
    case["hdrc"] = rng.choice(["tuple", "tuple", "tuple", "list", "np_int64", "np_int64", "np_int32", "np_uint16", "np_scalar"])
    # how the body array is handed to the constructor
    case["maskmode"] = rng.choice(["nomask", "nomask", "plain", "partial", "full", "noncontig"])
    # the version attribute of the header object handed to the writer (a pose read from a legacy file carries 0.1 / 0.0): Pose.write
    # produces the current layout whatever it says
    case["hversion"] = rng.choice([0.2, 0.2, 0.2, 0.1, 0.0, 0.3, 1.0])
    if rng.random() < edge:
        e = rng.choice(["dim_neg", "dim_big", "limb_big", "limb_neg", "color_big", "surrogate", "long_name", "fps_inf", "fps_nan", "fps_big",
                        "fps_edge", "more_points", "fewer_points", "conf_shape", "no_comps", "empty_format", "dims_mismatch", "rank3",
                        "name_65535", "people_big"])
        case["edge"] = e
        if e == "dim_neg":
            dims[rng.randrange(3)] = -rng.randrange(1, 5)
        elif e == "dim_big":
            dims[rng.randrange(3)] = 65536 + rng.randrange(0, 5)
        elif e in ("limb_big", "limb_neg", "color_big"):
            c = comps[rng.randrange(ncomp)]
            if e == "color_big":
                c["colors"].append(rng.choice([[0, 65536, 3], [0, 65536, 3], [70125, 2, 3], [1, -1, 3], [1, 2, -32768]]))
            else:
                c["limbs"].append([0, 65536] if e == "limb_big" else [-1, 0])
        elif e == "surrogate":
            c = comps[rng.randrange(ncomp)]
            c["name"] = c["name"] + [rng.choice([0xD800, 0xDBFF, 0xDC00, 0xDFFF])]
        elif e == "long_name":
            comps[0]["name"] = [0x61] * 65536 if rng.random() < 0.5 else [0xE9] * 32768
        elif e == "name_65535":
            comps[0]["name"] = [0x61] * 65535 if rng.random() < 0.5 else [0x20AC] * 21845
        elif e == "fps_inf":
            case["fps"] = b64(rng.choice([math.inf, -math.inf]))
        elif e == "fps_nan":
            case["fps"] = b64(math.nan)
        elif e == "fps_big":
            case["fps"] = b64(rng.choice([1e39, -3.5e38, 3.4028235677973366e38]))
        elif e == "fps_edge":
            case["fps"] = b64(rng.choice([3.4028234663852886e38, 3.4028235677973362e38, 1e-45, 1.4e-45, -0.0, 7.006492321624085e-46]))
        elif e == "more_points":
            case["shape"] = [F, P, T + 1, D]
            case["cshape"] = [F, P, T + 1]
        elif e == "fewer_points":
            if T > 0:
                case["shape"] = [F, P, T - 1, D]
                case["cshape"] = [F, P, T - 1]
        elif e == "conf_shape":
            case["cshape"] = rng.choice([[F, P, T + 1], [F, P + 1, T], [F + 1, P, T], [F, P * T], [F, P, T, 1]])
        elif e == "no_comps":
            case["comps"] = []
            case["shape"] = [F, P, 0, D]
            case["cshape"] = [F, P, 0]
        elif e == "empty_format":
            for c in comps:
                c["format"] = []
        elif e == "dims_mismatch":
            case["shape"] = [F, P, T, D + 1]
        elif e == "rank3":
            case["shape"] = [F, P, T]
        elif e == "people_big":
            case["shape"] = [1 if T else 2, 65536, T, D] if T <= 1 else case["shape"]
            case["cshape"] = case["shape"][:3]
    n = int(np.prod(case["shape"])) if case["shape"] else 1
    nc = int(np.prod(case["cshape"])) if case["cshape"] else 1
    if n > 300000 or nc > 300000:
        # keep it small: constant fill
        case["data"] = [b64(1.0)] * n
        case["conf"] = [b64(1.0)] * nc
    else:
        case["data"] = [gen_float_word(rng) for _ in range(n)]
        case["conf"] = [gen_float_word(rng, conf=True) for _ in range(nc)]
    return case


# ---------------------------------------------------------------------------------------------
# model side
def wpose_tree(case):
    comps = [[c["name"], c["format"], c["points"], c["limbs"], c["colors"]] for c in case["comps"]]
    return [list(case["dims"]), comps, case["fps"], list(case["shape"]), case["data"], list(case["cshape"]), case["conf"]]


def args_tree(args):
    args = args or {}

    def o(k):
        return [] if args.get(k) is None else [int(args[k])]
    return [o("start_frame"), o("start_time"), o("end_frame"), o("end_time")]


def pose_of_tree(t):
    """model's (header body) tree -> canonical dump (same shape as dump_pose)"""
    h, b = t
    ver, dims, comps = h
    return {
        "version": ver, "dims": list(dims),
        "comps": [{"name": c[0], "format": c[1], "points": c[2], "limbs": [list(x) for x in c[3]], "colors": [list(x) for x in c[4]]}
                  for c in comps],
        "fps": canon32(b[0]), "shape": list(b[1]), "data": [canon32(w) for w in b[2]], "conf": [canon32(w) for w in b[3]],
        "mask": [int(x) for x in b[4]],
    }


def result_of_tree(t, f):
    return ["ok", f(t[1])] if t[0] == 1 else ["err"]


# ---------------------------------------------------------------------------------------------
# implementation side
def _hdr_numbers(case):
    """limbs / colours / dimensions of the case in the container the case asks for"""
    mode = case.get("hdrc", "tuple")
    def seq(rows, width):
        if mode == "tuple":
            return [tuple(r) for r in rows]
        if mode == "list":
            return [list(r) for r in rows]
        if mode == "np_scalar":
            return [tuple(np.int64(x) for x in r) for r in rows]
        dt = {"np_int64": np.int64, "np_int32": np.int32, "np_uint16": np.uint16}[mode]
        if mode == "np_uint16" and any((x < 0 or x > 65535) for r in rows for x in r):
            dt = np.int64                                   # not representable in the narrow container: keep the integers
        return np.array([list(r) for r in rows], dtype=dt).reshape(-1, width)
    return seq, mode


def build_pose(case):
    from pose_format import Pose
    from pose_format.numpy import NumPyPoseBody
    from pose_format.pose_header import PoseHeader, PoseHeaderComponent, PoseHeaderDimensions
    seq, mode = _hdr_numbers(case)
    comps = [PoseHeaderComponent(from_cps(c["name"]), [from_cps(p) for p in c["points"]], seq(c["limbs"], 2),
                                 seq(c["colors"], 3), from_cps(c["format"])) for c in case["comps"]]
    dims = list(case["dims"])
    if mode.startswith("np_") and all(isinstance(d, int) and -2 ** 31 <= d < 2 ** 31 for d in dims):
        dims = [np.int64(d) for d in dims]
    header = PoseHeader(case.get("hversion", 0.2), PoseHeaderDimensions(*dims), comps)
    data = np.array(case["data"], dtype=np.uint64).view(np.float64).reshape(case["shape"])
    conf = np.array(case["conf"], dtype=np.uint64).view(np.float64).reshape(case["cshape"])
    if case.get("dtype") == "f32":
        data = data.astype(np.float32)
        conf = conf.astype(np.float32)
    elif case.get("dtype") in (">f4", ">f8"):
        # same values, big-endian storage (a legal ndarray dtype): the writer must still emit little-endian float32
        data = data.astype(np.dtype(case["dtype"]))
        conf = conf.astype(np.dtype(case["dtype"]))
    # The body array reaches the constructor in one of the forms a caller may hold it in.  A masked array without a mask is
    # the default (construction itself then never rejects a shape combination); the mask is irrelevant for writing (the writer
    # emits data.data) and the constructor must OR `confidence == 0` into whatever mask it is given.
    mm = case.get("maskmode", "nomask")
    coherent = len(case["shape"]) == 4 and list(case["cshape"]) == list(case["shape"][:3])
    if mm == "plain" and coherent:
        arr = data
    elif mm in ("partial", "full") and coherent:
        zero = np.repeat((conf == 0)[..., None], case["shape"][3], axis=-1) if case["shape"][3] else np.zeros(case["shape"], bool)
        if mm == "partial":
            keep = np.random.RandomState(len(case["data"]) * 7919 + len(case["conf"])).random_sample(zero.shape) < 0.5
            zero = zero & keep
        arr = ma.masked_array(data, mask=zero)
    elif mm == "noncontig" and coherent and data.ndim == 4:
        # same values in a non-contiguous (transposed-storage) array
        arr = ma.masked_array(np.ascontiguousarray(data.transpose(3, 2, 1, 0)).transpose(3, 2, 1, 0))
        conf = np.ascontiguousarray(conf.transpose(2, 1, 0)).transpose(2, 1, 0)
    else:
        arr = ma.masked_array(data)
    body = NumPyPoseBody(from_b64(case["fps"]), arr, conf)
    return Pose(header, body)


def impl_write(case):
    try:
        pose = build_pose(case)
        buf = io.BytesIO()
        pose.write(buf)
        return ["ok", list(buf.getvalue())]
    except Exception as e:
        return ["err", type(e).__name__]


def rewrite_after_edit(case):
    """Write the pose, edit its header IN PLACE without changing any count (a point renamed, a limb re-wired, a colour changed),
    write the SAME objects again: the second file must be the file of the edited pose (equal to writing a freshly built pose
    with the same edits).  -> None or a description of the difference"""
    import copy
    try:
        pose = build_pose(case)
        b1 = io.BytesIO()
        pose.write(b1)
    except Exception:
        return None                     # refused: nothing to re-write
    case2 = copy.deepcopy({k: v for k, v in case.items() if not k.startswith("_")})
    edited = False
    for ci, c in enumerate(pose.header.components):
        d = case2["comps"][ci]
        if len(c.points) and len(d["points"][0]) < 1000:
            c.points[0] = c.points[0] + "~"
            d["points"][0] = d["points"][0] + [0x7E]
            edited = True
        if len(c.limbs):
            a, b = int(c.limbs[0][0]), int(c.limbs[0][1])
            c.limbs[0] = (b, a)
            d["limbs"][0] = [b, a]
            edited = True
        if len(c.colors):
            c.colors[0] = (3, 2, 1)
            d["colors"][0] = [3, 2, 1]
            edited = True
    # ... and one stored coordinate and one confidence overwritten IN PLACE (through the arrays the body holds): what is written is
    # what the arrays hold at the time of the write
    try:
        raw = pose.body.data.data
        if raw.size and len(case2.get("data") or []) == raw.size and raw.flags.writeable:
            raw[(0,) * raw.ndim] = 2.5
            case2["data"][0] = b64(2.5)
            edited = True
        cf = pose.body.confidence
        if cf.size and len(case2.get("conf") or []) == cf.size and cf.flags.writeable:
            cf[(cf.shape[0] - 1,) + (0,) * (cf.ndim - 1)] = 0.75
            case2["conf"][(cf.shape[0] - 1) * (cf.size // cf.shape[0])] = b64(0.75)
            edited = True
    except Exception:
        pass
    if not edited:
        return None
    def w(p):
        try:
            b = io.BytesIO()
            p.write(b)
            return ["ok", b.getvalue()]
        except Exception as e:
            return ["err"]
    got = w(pose)
    try:
        want = w(build_pose(case2))
    except Exception:
        want = ["err"]
    if got != want:
        if got[0] != want[0]:
            return "second write of the edited pose %s, a fresh pose with the same header %s" % (got[0], want[0])
        i = next((k for k in range(min(len(got[1]), len(want[1]))) if got[1][k] != want[1][k]), min(len(got[1]), len(want[1])))
        return "second write of the pose (header and arrays edited in place after the first write) differs from the file of the edited pose at byte %d%s" % (
            i, " - it still equals the first file" if got[1] == b1.getvalue() else "")
    return None


def dump_pose(pose):
    h = pose.header
    b = pose.body
    data = np.asarray(b.data.data)
    conf = np.asarray(b.confidence)
    mask = np.asarray(ma.getmaskarray(b.data))
    shape = list(data.shape)
    out = {
        "version": f32_word_of_float(h.version),
        "dims": [int(h.dimensions.width), int(h.dimensions.height), int(h.dimensions.depth)],
        "comps": [{"name": cps(c.name), "format": cps(c.format), "points": [cps(p) for p in c.points],
                   "limbs": [[int(x) for x in l] for l in c.limbs], "colors": [[int(x) for x in k] for k in np.asarray(c.colors).reshape(-1, 3).tolist()]}
                  for c in h.components],
        "fps": f32_word_of_float(b.fps),
        "shape": shape,
    }
    if data.dtype == np.float32:
        out["data"] = [canon32(int(w)) for w in np.ascontiguousarray(data).view(np.uint32).reshape(-1)]
    else:
        out["data"] = [f32_word_of_float(x) for x in data.reshape(-1)]
        out["data_dtype"] = str(data.dtype)
    if conf.dtype == np.float32:
        out["conf"] = [canon32(int(w)) for w in np.ascontiguousarray(conf).view(np.uint32).reshape(-1)]
    else:
        out["conf"] = [f32_word_of_float(x) for x in conf.reshape(-1)]
    if list(conf.shape) != shape[:3]:
        out["conf_shape"] = list(conf.shape)
    if mask.shape != data.shape:
        out["mask"] = ["bad-shape", list(mask.shape)]
    else:
        m = mask.reshape(-1, shape[3]) if shape[3] > 0 else mask.reshape(-1, 0)
        if shape[3] > 0 and not (m == m[:, :1]).all():
            out["mask"] = ["not-uniform-over-dims"]
        else:
            out["mask"] = [int(x) for x in (m[:, 0] if shape[3] > 0 else [])]
    return out


def _scribble(pose):
    """what the owner of an earlier result may do with it: edit header and body in place.  Reads are history independent
    (the memo holds its own copy), so this must not influence any later read; a memo that shares state with a returned
    pose shows up as a concrete wrong header in the check that primed it."""
    def attempt(f):
        try:
            f()
        except Exception:
            pass
    h = pose.header
    attempt(lambda: setattr(h.dimensions, "width", (h.dimensions.width or 0) + 7))
    attempt(lambda: setattr(h.dimensions, "height", 1))
    for c in list(h.components):
        attempt(lambda c=c: setattr(c, "name", c.name + "~"))
        attempt(lambda c=c: c.points.__setitem__(0, c.points[0] + "~"))
        attempt(lambda c=c: c.limbs.__setitem__(0, (c.limbs[0][1], c.limbs[0][0] + 1)))
        attempt(lambda c=c: c.colors.__setitem__(0, (9, 9, 9)))
    attempt(lambda: h.components.reverse())
    attempt(lambda: pose.body.data.__setitem__(Ellipsis, 3.0))
    attempt(lambda: pose.body.confidence.__setitem__(Ellipsis, 0.25))
    attempt(lambda: setattr(pose.body, "fps", 1.0))


def set_memo(state, other_bytes=None, same_bytes=None):
    from pose_format import Pose
    from pose_format.pose_header import PoseHeaderCache
    PoseHeaderCache.clear_cache()
    if state == "same" and same_bytes is not None:
        try:
            _scribble(Pose.read(bytes(same_bytes)))
        except Exception:
            pass
    elif state == "other" and other_bytes is not None:
        _scribble(Pose.read(bytes(other_bytes)))
    elif state == "twin" and same_bytes is not None:
        # a file whose header differs from this one in the version word only (the body is then in another layout and
        # may or may not parse): its header reaches the memo either way
        try:
            _scribble(Pose.read(twin_bytes(same_bytes)))
        except Exception:
            pass


def anagram_case(case):
    """the same pose with the point names "p01" and "p10" of one component exchanged (None when the case has no such pair): its
    header has the same length, the same multiset of bytes and even the same position-weighted byte sum as the case's own"""
    import copy as _copy
    a, b = cps("p01"), cps("p10")
    for k, c in enumerate(case["comps"]):
        if a in c["points"] and b in c["points"]:
            c2 = _copy.deepcopy({key: v for key, v in case.items() if not key.startswith("_")})
            pts = c2["comps"][k]["points"]
            i, j = pts.index(a), pts.index(b)
            pts[i], pts[j] = pts[j], pts[i]
            return c2
    return None


V01_WORD = struct.pack("<f", 0.1)
V02_WORD = struct.pack("<f", 0.2)


def twin_bytes(file_bytes):
    b = bytes(file_bytes)
    return (V01_WORD if b[:4] != V01_WORD else V02_WORD) + b[4:]


ARG_TYPES = ["int", "int", "int", "np.int64", "np.int32", "np.int16", "np.uint16", "np.uint8", "np.int8"]


def typed_args(args, argtype, limit=None):
    """window bounds as the caller may hold them: Python ints or NumPy integer scalars; the same integers either way.  A NumPy
    type is used only when it holds the bound AND the file's frame count (`limit`): NumPy refuses to mix a narrow scalar with a
    Python int outside its range (OverflowError, NEP 50), which is the caller's choice of type, not the reader's doing."""
    if not argtype or argtype == "int":
        return args
    out = {}
    for k, v in args.items():
        if isinstance(v, int) and not isinstance(v, bool):
            for t in (argtype, "np.int16", "np.int32", "np.int64"):
                dt = np.dtype(t[3:])
                info = np.iinfo(dt)
                if info.min <= v <= info.max and (limit is None or limit + 1 <= info.max):
                    v = dt.type(v)
                    break
        out[k] = v
    return out


def impl_read(data, kind="bytes", args=None, counting=False, argtype=None, limit=None):
    """-> (["ok", dump] | ["err", name], pulled)"""
    from pose_format import Pose
    args = {k: v for k, v in (args or {}).items() if v is not None}
    args = typed_args(args, argtype, limit)
    try:
        if kind == "bytes":
            return ["ok", dump_pose(Pose.read(bytes(data), **args))], 0
        s = CountingStream(bytes(data))
        p = Pose.read(s, **args)
        return ["ok", dump_pose(p)], s.pulled
    except Exception as e:
        return ["err", type(e).__name__], 0


class CountingStream(io.BytesIO):
    def __init__(self, b):
        super().__init__(b)
        self.pulled = 0

    def read(self, n=-1):
        r = super().read(n)
        self.pulled += len(r)
        return r


def strip_err(r):
    """canonical form for comparison: errors are one class"""
    return ["err"] if r[0] == "err" else r


# an unrelated small file used to put "another file's header" into the memo
def other_file_bytes():
    from pose_format.pose_header import PoseHeaderCache
    case = {"dims": [7, 9, 0], "comps": [{"name": cps("other"), "format": cps("XYC"), "points": [cps("p0"), cps("p1"), cps("p2")], "limbs": [[0, 1]], "colors": [[1, 2, 3]]}],
            "fps": b64(12.0), "shape": [2, 1, 3, 2], "cshape": [2, 1, 3], "dtype": "f32",
            "data": [b64(float(i)) for i in range(12)], "conf": [b64(1.0)] * 6}
    r = impl_write(case)
    PoseHeaderCache.clear_cache()
    assert r[0] == "ok"
    return r[1]
