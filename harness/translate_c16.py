"""C16 translator (fail-closed): the anchored frame-selection / stepping / dropout code -> coq/gen/Gen_C16.v.

Emitted facts
  dropout_cap_bits          binary64 word of the cap constant in  min(int(n * p), int(n * <cap>))   (pose_body.py:571)
  generic_dropout_stmts     the statements of PoseBody.frame_dropout_given_percent, cap literal replaced by CAP
  generic_select_stmts      PoseBody.select_frames
  uniform_stmts/normal_stmts  the two generic wrappers (how the fraction is derived from the draw)
  slice_step_stmts          PoseBody.slice_step  (data[::by], confidence[::by], fps / by)
  tf_dropout_stmts, tf_select_stmts, tf_uniform_stmts, tf_normal_stmts    TensorflowPoseBody
  tf_gather_stmts, torch_getitem_stmts, tf_getitem_stmts                    masked-tensor indexing
  pose_uniform_stmts, pose_normal_stmts, pass_through_methods, getattr_stmts  Pose level
  header_attrs              every attribute name a PoseHeader instance has (methods, class and instance attributes)
Statements are `ast.unparse` text (comments, docstrings and layout do not matter; any other edit changes a string and
breaks the tie lemma that quotes it, coq/proofs/C16_GenTie.v)."""
import ast
import struct

import translate_py as tp
from common import TranslateError


def stmts(f):
    out = []
    for st in tp.body_wo_doc(f):
        if isinstance(st, ast.Expr) and isinstance(st.value, ast.Constant) and isinstance(st.value.value, str):
            continue
        out.append(ast.unparse(st).replace("\\", "\\\\").replace("\n", "\\n"))
    return out


def method(rel, cname, fname):
    return tp.fn(tp.cls(tp.parse(rel), cname), fname)


def cap_and_stmts():
    f = method("pose_body.py", "PoseBody", "frame_dropout_given_percent")
    found = []

    class V(ast.NodeTransformer):
        def visit_Call(self, node):
            self.generic_visit(node)
            if isinstance(node.func, ast.Name) and node.func.id == "min" and len(node.args) == 2 and not node.keywords:
                b = node.args[1]
                if (isinstance(b, ast.Call) and isinstance(b.func, ast.Name) and b.func.id == "int" and len(b.args) == 1
                        and isinstance(b.args[0], ast.BinOp) and isinstance(b.args[0].op, ast.Mult)
                        and isinstance(b.args[0].right, ast.Constant) and isinstance(b.args[0].right.value, (int, float))
                        and not isinstance(b.args[0].right.value, bool)):
                    found.append(float(b.args[0].right.value))
                    b.args[0].right = ast.Name(id="CAP", ctx=ast.Load())
            return node

    V().visit(f)
    if len(found) != 1:
        raise TranslateError("pose_body.py frame_dropout_given_percent: expected exactly one "
                             "min(int(..), int(<n> * <literal>)) cap, found %d" % len(found))
    cap = found[0]
    if not (cap == cap and abs(cap) != float("inf")):
        raise TranslateError("dropout cap literal is not a finite number")
    bits = struct.unpack("<Q", struct.pack("<d", cap))[0]
    return bits, cap, stmts(f)


def header_attrs():
    c = tp.cls(tp.parse("pose_header.py"), "PoseHeader")
    names = set()
    for n in c.body:
        if isinstance(n, (ast.FunctionDef, ast.AsyncFunctionDef, ast.ClassDef)):
            names.add(n.name)
            if isinstance(n, ast.FunctionDef):
                for a in ast.walk(n):
                    if isinstance(a, ast.Attribute) and isinstance(a.ctx, ast.Store) and isinstance(a.value, ast.Name) \
                            and a.value.id == "self":
                        names.add(a.attr)
        elif isinstance(n, ast.Assign):
            for t in n.targets:
                for a in ast.walk(t):
                    if isinstance(a, ast.Name):
                        names.add(a.id)
        elif isinstance(n, ast.AnnAssign) and isinstance(n.target, ast.Name):
            names.add(n.target.id)
        elif isinstance(n, ast.Expr) and isinstance(n.value, ast.Constant):
            continue
        else:
            raise TranslateError("PoseHeader: unrecognised class-level statement %s" % ast.unparse(n)[:60])
    if c.bases or c.keywords:
        raise TranslateError("PoseHeader has base classes: inherited attributes are not collected")
    return sorted(names)


def pass_through():
    c = tp.cls(tp.parse("pose.py"), "Pose")
    r = [n for n in c.body if isinstance(n, ast.Assign) and len(n.targets) == 1
         and isinstance(n.targets[0], ast.Name) and n.targets[0].id == "pass_through_methods"]
    if len(r) != 1 or not isinstance(r[0].value, ast.Set):
        raise TranslateError("Pose.pass_through_methods is not a single set literal")
    out = []
    for e in r[0].value.elts:
        if not (isinstance(e, ast.Constant) and isinstance(e.value, str)):
            raise TranslateError("Pose.pass_through_methods: non-literal element")
        out.append(e.value)
    return sorted(out)


def body_class_overrides():
    """methods of the three body classes among those C16 models (a new override would bypass the generic code)"""
    watched = ["select_frames", "slice_step", "frame_dropout_given_percent", "frame_dropout_uniform", "frame_dropout_normal",
               "__len__"]
    out = []
    for rel, cname in (("numpy/pose_body.py", "NumPyPoseBody"), ("torch/pose_body.py", "TorchPoseBody"),
                       ("tensorflow/pose_body.py", "TensorflowPoseBody")):
        c = tp.cls(tp.parse(rel), cname)
        if [ast.unparse(b) for b in c.bases] != ["PoseBody"]:
            raise TranslateError("%s: bases are not exactly (PoseBody)" % cname)
        have = [n.name for n in c.body if isinstance(n, ast.FunctionDef)]
        for w in watched:
            if w in have:
                out.append("%s.%s" % (cname, w))
    return out


def slist(name, items):
    return "Definition %s : list string :=\n  %s.\n" % (name, tp.clist([tp.cstr(s) for s in items]))


def gen():
    bits, cap, gd = cap_and_stmts()
    parts = [
        "(* GENERATED by harness/translate_c16.py from /repo on every run - do not edit. *)\n"
        "From Coq Require Import String List ZArith NArith.\nImport ListNotations.\nOpen Scope string_scope.\n",
        "(* cap literal %r of pose_body.py frame_dropout_given_percent, as a binary64 word *)\n"
        "Definition dropout_cap_bits : N := %d%%N.\n" % (cap, bits),
        slist("generic_dropout_stmts", gd),
        slist("generic_select_stmts", stmts(method("pose_body.py", "PoseBody", "select_frames"))),
        slist("uniform_stmts", stmts(method("pose_body.py", "PoseBody", "frame_dropout_uniform"))),
        slist("normal_stmts", stmts(method("pose_body.py", "PoseBody", "frame_dropout_normal"))),
        slist("slice_step_stmts", stmts(method("pose_body.py", "PoseBody", "slice_step"))),
        slist("tf_dropout_stmts", stmts(method("tensorflow/pose_body.py", "TensorflowPoseBody", "frame_dropout_given_percent"))),
        slist("tf_select_stmts", stmts(method("tensorflow/pose_body.py", "TensorflowPoseBody", "select_frames"))),
        slist("tf_uniform_stmts", stmts(method("tensorflow/pose_body.py", "TensorflowPoseBody", "frame_dropout_uniform"))),
        slist("tf_normal_stmts", stmts(method("tensorflow/pose_body.py", "TensorflowPoseBody", "frame_dropout_normal"))),
        slist("tf_gather_stmts", stmts(method("tensorflow/masked/tensor.py", "MaskedTensor", "gather"))),
        slist("tf_getitem_stmts", stmts(method("tensorflow/masked/tensor.py", "MaskedTensor", "__getitem__"))),
        slist("torch_getitem_stmts", stmts(method("torch/masked/tensor.py", "MaskedTensor", "__getitem__"))),
        slist("torch_len_stmts", stmts(method("torch/masked/tensor.py", "MaskedTensor", "__len__"))),
        slist("pose_uniform_stmts", stmts(method("pose.py", "Pose", "frame_dropout_uniform"))),
        slist("pose_normal_stmts", stmts(method("pose.py", "Pose", "frame_dropout_normal"))),
        slist("getattr_stmts", stmts(method("pose.py", "Pose", "__getattr__"))),
        slist("pass_through_methods", pass_through()),
        slist("header_attrs", header_attrs()),
        slist("body_overrides", body_class_overrides()),
        "(* the two facts Pose.__getattr__('slice_step') depends on, as booleans (the extracted runner uses no strings) *)\n"
        "Definition slice_step_listed : bool := %s.\nDefinition header_has_slice_step : bool := %s.\n"
        % (("true" if "slice_step" in pass_through() else "false"), ("true" if "slice_step" in header_attrs() else "false")),
    ]
    return {"Gen_C16.v": "\n".join(parts)}


if __name__ == "__main__":
    print(gen()["Gen_C16.v"])
