"""Maintenance helper (not used by ./check): after a reviewed, accepted change of a modelled source function,
rewrite the literals of coq/proofs/C13_GenTie.v from the current coq/gen/Gen_C13.v.  The model must be re-read
against the new source first - the tie exists to force exactly that.
usage: cd /verif/coq && python3 ../harness/c13_mktie.py"""
import os
import re
g=open('gen/Gen_C13.v').read()
defs=re.findall(r'Definition (\w+) : ([^\n]*?) :=\s(.*?)\.\n(?=\n|$)', g, flags=re.S)
names=[d[0] for d in defs]
code=[n for n in names if n.endswith('_body') or n=='points_dims']
groups={
 'lookup_code_tie':['get_component_names_body','pose_normalization_info_body','normalize_component_3d_body','normalize_hands_3d_body','get_point_index_body','normalization_info_body'],
 'normalize_code_tie':['pose_normalize_body','distance_batch_body','np_points_perspective_body','tf_points_perspective_body','points_dims'],
 'distribution_code_tie':['pose_normalize_distribution_body','pose_unnormalize_distribution_body','tf_mean_body','tf_variance_body','tf_std_body'],
 'norm3d_code_tie':['pn_init_body','pn_rotate_to_normal_body','pn_get_normal_body','pn_get_rotation_angle_body','pn_rotate_body','pn_scale_body','pn_normalize_pose_body','pn_call_body'],
}
assert sorted(sum(groups.values(),[]))==sorted(code),(sorted(code),sorted(sum(groups.values(),[])))
head=open(os.path.join(os.path.dirname(os.path.abspath(__file__)), 'c13_tie_head.v.txt')).read()
out=[head]
d={n:(t,b) for n,t,b in defs}
for gname,members in groups.items():
    for n in members:
        t,b=d[n]
        out.append('Definition lit_%s : %s :=\n  %s.\n'%(n,t,b.strip()))
    out.append('Lemma %s :\n  %s.\nProof. repeat split; reflexivity. Qed.\n'%(gname,'\n  /\\ '.join('Gen_C13.%s = lit_%s'%(n,n) for n in members)))
open('proofs/C13_GenTie.v','w').write('\n'.join(out))
