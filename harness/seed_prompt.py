import json,sys
props={json.loads(l)["id"]:json.loads(l) for l in open('/verif/properties.jsonl')}
def prompt(tag, hint=""):
    pid=tag[:3]
    p=props[pid]
    text=p.get("statement") or p.get("text") or p.get("description")
    return f"""You are helping to test a verification tool by mutation. Work ONLY inside the git worktree {'/tmp/seedwt/'+tag} (a scratch checkout of the open-source library sign-language-processing/pose: Python package under src/python/pose_format, a TypeScript reader under src/js/pose_format/src, format specs under docs/specs). Do NOT read, list or touch /verif or /repo, and do not look at any other directory under /tmp/seedwt or /tmp/seedout than your own.

Here is a semantic property that the library is meant to satisfy (and, as far as we know, does satisfy at this commit):

{p['id']}: {p['title']}
{text}

Your task: make ONE small, realistic, plausible-looking change to the library's source in your worktree (the kind of regression a refactoring, an 'optimisation' or a careless bug fix could introduce) that BREAKS this property, such that
 (a) the package still imports and the existing test-suite still passes exactly as before: run `cd /tmp/seedwt/{tag} && /venv/bin/python -m pytest -q -p no:cacheprovider --timeout=900 --continue-on-collection-errors 2>&1 | tail -3` before and after; the baseline is "8 failed, 128 passed, 13 errors" (the 21 non-passing ones are pre-existing, caused by packages that are not installed) and it must be the same with your change;
 (b) the breakage needs something SPECIFIC to manifest - a particular multi-step sequence of operations, an unusual but valid input, a particular size/offset relation, a particular interleaving of threads, two cooperating code sites that each look fine alone - NOT something that ordinary use or a trivial smoke test would expose at once. Subtle beats blatant.
 (c) do not touch the tests; do not add new dependencies; change only library source files (Python, or the TypeScript reader if the property concerns it).{hint}

How to run the code: `PYTHONPATH=/tmp/seedwt/{tag}/src/python /venv/bin/python your_script.py` (numpy, torch, tensorflow, scipy are installed in /venv; mediapipe is not; there is no network). Example fixtures: src/python/tests/data/*.pose.

Deliverables, all written into /tmp/seedout/{tag}/ :
 1. demo.py - a self-contained demonstration that imports pose_format from PYTHONPATH (do not hard-code the worktree path in it) and checks the property on a concrete scenario: it must exit 0 on the ORIGINAL code and exit non-zero (printing what went wrong) on the CHANGED code. Verify both yourself: original = `git -C /tmp/seedwt/{tag} diff > p.diff; git -C /tmp/seedwt/{tag} apply -R p.diff`, run, then `git -C /tmp/seedwt/{tag} apply p.diff` (never use git stash: it is shared between worktrees).
 2. README.md - 5-15 lines: what you changed and why it looks innocent, which clause of the property it breaks, exactly what is needed for it to manifest, and the test-suite tail you observed with the change.
 3. Leave your change UNCOMMITTED in the worktree (I will take `git diff` from it). Also save `git -C /tmp/seedwt/{tag} diff > /tmp/seedout/{tag}/patch.diff`.
Finish by replying with a 3-line summary (file changed, what is needed to manifest, demo result on original/changed)."""
if __name__=="__main__":
    print(prompt(sys.argv[1], sys.argv[2] if len(sys.argv)>2 else ""))
