"""C18 - concurrent reads are isolated from each other.

Correspondence: the real Pose.read runs in real threads under a deterministic replay scheduler (sys.settrace +
baton; exactly one thread runs at a time; a thread yields at the line event of every statement that itself
accesses a memo field or the lock - the lines come from the translator).  The schedule is a list of thread ids,
one entry per line step, the same list the extracted model (coq/model/C18_Threads.v, `lrun`) executes.  Compared
per thread: the yield-point trace, the header PoseHeader.read returned and the offset it left the reader at, and
(plain readers) the whole decoded pose.
Oracle (model-free): every thread's result equals the result of the same read made alone."""
import io
import os
import sys
import threading

import common
import posegen as pg
import translate_c18 as tr

MAIN = -1
TIMEOUT = 20.0
LMAX = 13            # no thread needs more line steps than this (13 on the locked miss path)

CHK, CALC, SETC, HREAD, PREAD = ("PoseHeaderCache.check_cache", "PoseHeaderCache.calc_hash", "PoseHeaderCache.set_cache",
                                 "PoseHeader.read", "Pose.read")
CALC_TOK = "return[load start_offset; load end_offset]"
WITH_TOK = "with[load lock]{"
# model pc label -> the statement whose line event starts that step
LABEL = {1: (PREAD, "load end_offset"), 2: (HREAD, WITH_TOK), 3: (CHK, "if[load hash]{"), 4: (CHK, "if[load hash; call calc_hash]{"),
         5: (CALC, CALC_TOK), 7: (CHK, "return[load header]"), 8: (HREAD, "load end_offset"), 9: (HREAD, WITH_TOK), 10: (HREAD, WITH_TOK),
         11: (SETC, WITH_TOK), 12: (SETC, "store start_offset"), 13: (SETC, "store end_offset"), 14: (SETC, "store header"),
         15: (SETC, "call calc_hash; store hash"), 16: (CALC, CALC_TOK), 19: (SETC, WITH_TOK)}


class SchedulerError(Exception):
    pass


_REAL_LOCK, _REAL_RLOCK = threading.Lock, threading.RLock
CURRENT = {"replay": None}


class PkgLock:
    """What threading.Lock() / RLock() return while the pose_format package is being imported by this check: the same mutual
    exclusion (a real lock inside), but a REPLAY WORKER that finds it held hands the baton back instead of blocking inside C -
    whatever locks the library creates (module level, class level, in decorators), a schedule can always be played to its end."""

    def __init__(self, real):
        self.real = real

    def acquire(self, blocking=True, timeout=-1):
        rp = CURRENT["replay"]
        t = getattr(rp.local, "tid", None) if rp is not None else None
        if t is None or not blocking:
            return self.real.acquire(blocking, timeout)
        while not self.real.acquire(False):
            rp.park(t)
        return True

    def release(self):
        self.real.release()

    def __enter__(self):
        return self.acquire()

    def __exit__(self, *a):
        self.release()

    def locked(self):
        return self.real.locked() if hasattr(self.real, "locked") else False


class PkgLocks:
    """context manager: locks created inside are PkgLocks"""

    def __enter__(self):
        threading.Lock = lambda: PkgLock(_REAL_LOCK())
        threading.RLock = lambda: PkgLock(_REAL_RLOCK())
        return self

    def __exit__(self, *a):
        threading.Lock, threading.RLock = _REAL_LOCK, _REAL_RLOCK


def import_package_with_cooperative_locks():
    """(re-)import pose_format so that every lock it creates at import time is a PkgLock"""
    for k in [k for k in sys.modules if k == "pose_format" or k.startswith("pose_format.")]:
        del sys.modules[k]
    with PkgLocks():
        import pose_format                                      # noqa: F401
        import pose_format.pose, pose_format.pose_header, pose_format.pose_body, pose_format.utils.reader      # noqa: F401
        import pose_format.numpy.pose_body                      # noqa: F401


class CoopLock:
    """Stands in for PoseHeaderCache.<lock> during a replay: same mutual exclusion (it uses the real lock), but a
    thread that finds it held hands the baton back instead of blocking inside C (one schedule entry = one failed try)."""

    def __init__(self, real, replay):
        self.real, self.replay = real, replay

    def acquire(self, blocking=True, timeout=-1):
        t = getattr(self.replay.local, "tid", None)
        if t is None:
            return self.real.acquire(blocking, timeout)
        while not self.real.acquire(False):
            self.replay.park(t)
        return True

    def release(self):
        self.real.release()

    def __enter__(self):
        return self.acquire()

    def __exit__(self, *a):
        self.release()

    def locked(self):
        return self.real.locked()


class Replay:
    def __init__(self, n, watch, hread_code):
        self.n = n
        self.watch = watch                  # {code object: (key, set(lines))}
        self.hread_code = hread_code
        self.cv = threading.Condition()
        self.turn = MAIN
        self.local = threading.local()
        self.at = [None] * n
        self.done = [False] * n
        self.res = [None] * n
        self.obs = [None] * n               # (header object, read_offset) at the return of PoseHeader.read
        self.trace = []

    def park(self, t):
        with self.cv:
            self.turn = MAIN
            self.cv.notify_all()
            if not self.cv.wait_for(lambda: self.turn == t, timeout=TIMEOUT):
                raise SchedulerError("thread %d was never resumed" % t)

    def give(self, t):
        with self.cv:
            self.turn = t
            self.cv.notify_all()
            if not self.cv.wait_for(lambda: self.turn == MAIN, timeout=TIMEOUT):
                raise SchedulerError("thread %d did not yield" % t)

    def tracer(self, t):
        watch, hread = self.watch, self.hread_code

        def local(frame, event, arg):
            w = watch[frame.f_code]
            if event == "line":
                if frame.f_lineno in w[1]:
                    self.at[t] = (w[0], frame.f_lineno)
                    self.park(t)
            elif event == "return" and frame.f_code is hread and arg is not None:
                rd = frame.f_locals.get("reader")
                self.obs[t] = (arg, getattr(rd, "read_offset", None))
            return local

        def glob(frame, event, arg):
            return local if frame.f_code in watch else None
        return glob

    def worker(self, t, fn):
        self.local.tid = t
        with self.cv:
            self.cv.wait_for(lambda: self.turn == t, timeout=TIMEOUT)
        sys.settrace(self.tracer(t))
        try:
            r = ["ok", fn()]
        except SchedulerError:
            r = ["sched"]
        except Exception as e:
            r = ["err", type(e).__name__]
        finally:
            sys.settrace(None)
        self.res[t] = r
        with self.cv:
            self.done[t] = True
            self.turn = MAIN
            self.cv.notify_all()

    def run(self, fns, sched):
        CURRENT["replay"] = self
        try:
            return self._run(fns, sched)
        finally:
            CURRENT["replay"] = None

    def _run(self, fns, sched):
        ths = [threading.Thread(target=self.worker, args=(i, f), daemon=True) for i, f in enumerate(fns)]
        for th in ths:
            th.start()
        for t in range(self.n):             # every thread up to its first yield point (no shared access before it)
            self.give(t)
        for t in sched:
            if t >= self.n or self.done[t]:
                continue
            self.trace.append((t, self.at[t]))
            self.give(t)
        complete = all(self.done)
        if not complete:                    # never leave threads parked
            for _ in range(400):
                for t in range(self.n):
                    if not self.done[t]:
                        self.give(t)
                if all(self.done):
                    break
        for th in ths:
            th.join(TIMEOUT)
        return complete


class LineReplay(Replay):
    """One preemption at an arbitrary source line: thread 0 is parked before the k-th line it executes inside the
    pose_format package (any file, any function), thread 1 then runs (untraced) until it finishes or finds the lock
    held, thread 0 resumes and finishes, thread 1 finishes.  k = None: never park (used to count the lines).
    opcodes=True: the unit is one bytecode instead of one line (sys.settrace with f_trace_opcodes), so two accesses to shared
    state written in ONE statement can be separated as the thread model separates them."""

    def __init__(self, k, pkgdir, opcodes=False):
        super().__init__(2, {}, None)
        self.k, self.pkgdir, self.nlines, self.opcodes = k, pkgdir, 0, opcodes
        self.hot, self._hot_code = [], {}

    def is_hot(self, frame):
        """does this function name a module-level mutable container (list / dict / set / bytearray) - state that every thread of
        the process shares?  (the counting run marks the bytecodes executed in such functions; the search samples them first)"""
        co = frame.f_code
        h = self._hot_code.get(co)
        if h is None:
            g = frame.f_globals
            h = any(isinstance(g.get(n), (list, dict, set, bytearray)) for n in co.co_names)
            self._hot_code[co] = h
        return h

    def tracer(self, t):
        if t != 0:
            return None
        unit = "opcode" if self.opcodes else "line"

        def local(frame, event, arg):
            if event == unit:
                self.nlines += 1
                if self.k is None and self.opcodes and self.is_hot(frame):
                    self.hot.append(self.nlines)
                if self.nlines == self.k:
                    self.at[0] = (os.path.basename(frame.f_code.co_filename), frame.f_code.co_name, frame.f_lineno)
                    self.park(0)
            return local

        def glob(frame, event, arg):
            if not frame.f_code.co_filename.startswith(self.pkgdir):
                return None
            if self.opcodes:          # finer than lines: the thread can be parked between two bytecodes of ONE statement
                frame.f_trace_opcodes = True
            return local
        return glob

    def run(self, fns):
        CURRENT["replay"] = self
        try:
            return self._run1(fns)
        finally:
            CURRENT["replay"] = None

    def _run1(self, fns):
        ths = [threading.Thread(target=self.worker, args=(i, f), daemon=True) for i, f in enumerate(fns)]
        for th in ths:
            th.start()
        for _ in range(50):
            for t in range(len(fns)):
                if not self.done[t]:
                    self.give(t)
            if all(self.done[:len(fns)]):
                break
        for th in ths:
            th.join(TIMEOUT)
        return all(self.done[:len(fns)])


def dump_header(h):
    import numpy as np
    return {"version": pg.f32_word_of_float(h.version),
            "dims": [int(h.dimensions.width), int(h.dimensions.height), int(h.dimensions.depth)],
            "comps": [{"name": pg.cps(c.name), "format": pg.cps(c.format), "points": [pg.cps(p) for p in c.points],
                       "limbs": [[int(x) for x in l] for l in c.limbs],
                       "colors": [[int(x) for x in k] for k in np.asarray(c.colors).reshape(-1, 3).tolist()]} for c in h.components]}


def header_of_tree(t):
    ver, dims, comps = t
    return {"version": ver, "dims": list(dims),
            "comps": [{"name": c[0], "format": c[1], "points": c[2], "limbs": [list(x) for x in c[3]], "colors": [list(x) for x in c[4]]}
                      for c in comps]}


# ------------------------------------------------------------------------------------------------
# files
def mk_file(points, dims=(10, 20, 0), frames=3, seed=0, name="c", fmt="XYC"):
    T = len(points)
    D = len(fmt) - 1
    data = [pg.b64(float((seed * 7 + i) % 97) + 0.5) for i in range(frames * T * D)]
    conf = [pg.b64(0.0 if (i + seed) % 5 == 0 else 1.0) for i in range(frames * T)]
    case = {"dims": list(dims), "comps": [{"name": pg.cps(name), "format": pg.cps(fmt), "points": [pg.cps(p) for p in points],
                                           "limbs": [[0, max(0, T - 1)]], "colors": [[255, 0, seed % 256]]}],
            "fps": pg.b64(10.0), "shape": [frames, 1, T, D], "cshape": [frames, 1, T], "dtype": "f32", "data": data, "conf": conf}
    r = pg.impl_write(case)
    assert r[0] == "ok", r
    return bytes(r[1])


def file_table():
    """named files: equal headers (A, A2, Along), same header length but different content (B, Bd), longer (C),
    shorter (D), 3-D (E), malformed (Xh: cut inside the header, Xb: cut inside the body)"""
    A = mk_file(["a0", "a1"], seed=1)
    t = {"A": A, "A2": mk_file(["a0", "a1"], seed=2), "Along": mk_file(["a0", "a1"], seed=3, frames=40),
         "B": mk_file(["b0", "b1"], seed=4), "Bd": mk_file(["a0", "a1"], dims=(11, 20, 0), seed=5),
         "C": mk_file(["cccccccc0", "cccccccc1", "cccccccc2"], seed=6), "Clong": mk_file(["cccccccc0", "cccccccc1", "cccccccc2"], seed=7, frames=30),
         "D": mk_file(["d"], seed=8), "E": mk_file(["e0", "e1"], seed=9, fmt="XYZC"),
         "Xh": A[:30], "Xb": A[:len(A) - 7], "Z": b""}
    # strings of EVERY length up to 6 / up to 10: whatever the library keeps per string length (struct formats, decoders) is
    # exercised at consecutive lengths, and the longer file asks for lengths the shorter one never needs
    # two headers longer than the 10 KiB prefetch that agree on their first 10 300 bytes (one long component name) and differ after
    # it: whatever identifies a header must look at ALL of it
    t["L1"] = mk_file(["l1a", "l1b"], seed=12, name="n" * 10300)
    t["L2"] = mk_file(["l2a", "l2b"], seed=13, name="n" * 10300)
    t["S"] = mk_file(["s" * k for k in range(1, 7)], seed=10)
    t["T"] = mk_file(["t" * k for k in range(1, 11)], seed=11)
    return t


def expand(segs):
    out = []
    for t, k in segs:
        out += [t] * k
    return out


def tail(n, start=0):
    """completion of a schedule: every thread in turn gets enough entries to finish (n + 1 rounds, because a thread
    that finds the lock held only spins)"""
    return [[(start + t) % n, 3 * LMAX] for _ in range(n + 1) for t in range(n)]


class C18(common.Prop):
    ID = "C18"
    RUNNER = "c18"
    MODEL_FILES = ["model/C18_Threads.v", "model/PoseRead.v", "model/Codec.v", "base/Prog.v"]   # proofs: proofs/C18_*.v
    RULE = ("2 (thorough: also 3) reader threads over named file pairs - equal headers, same-length different headers, longer, "
            "shorter, malformed - as bytes, as streams and as window reads of streams, memo initially empty or warm; for every pair "
            "all line-level schedules with <= 2 (thorough <= 3) preemptions, 3 readers sampled; plus, judged by the oracle only, one preemption "
            "before every (quick: 70 sampled per pair and order) source line of pose_format executed inside Pose.read, cold memo, "
            "8 pairs x 2 orders, and one preemption before a sampled BYTECODE (40 per pair and order; thorough 700) of the same "
            "reads (sys.settrace with f_trace_opcodes), plus every bytecode executed inside a function that names a module-level "
            "list / dict / set / bytearray (none on the read path of the library as it stands); a quarter "
            "of the line cases and a third of the bytecode cases run in a freshly imported package (first-use races on lazily built "
            "module state); one case = one schedule; "
            "non-trivial = the first switch preempts a thread that is certainly still inside the memo code (first segment < 6 line "
            "steps); distinct by content hash")
    TRUSTED = ["Coq 8.16.1 kernel (vm_compute for the refutation witnesses)", "harness/translate_c18.py (fail-closed ast translator)",
               "extraction: ExtrOcamlBasic only; runner/driver.ml",
               "harness/c18.py replay scheduler (sys.settrace + baton; the package is imported with threading.Lock / RLock replaced by a cooperative wrapper "
               "around a real lock, so a replay worker that finds ANY library lock held yields instead of blocking)"]
    ASSUMPTIONS = ["hashlib.md5 is injective on the compared header slices (the model's hash is the slice)",
                   "CPython executes one thread at a time (GIL) and each attribute load/store of a class attribute is atomic",
                   "CPython may switch threads between bytecodes; the multi-preemption replay scheduler switches at line events, the "
                   "one-preemption search also between two bytecodes of one statement - the model's step (one access) refines both",
                   "BytesIOReader threads: the thread model's result is (header, body offset); the body is covered by "
                   "isolated_stream_body_partial (C03's reader simulation, forward direction); the oracle compares the whole pose "
                   "whenever the job's solo result does not itself depend on what the memo holds (always, since the F3 repair)"]

    def __init__(self):
        self.info = None
        self.terr = None

    # ---- tie (a)
    def translate(self):
        try:
            self.info = tr.analyse()
        except common.TranslateError as e:
            self.info, self.terr = None, e
            raise
        return tr.gen(self.info)

    def translate_outputs(self):
        return ["gen/Gen_C18.v"]

    def setup(self):
        import_package_with_cooperative_locks()
        from pose_format import Pose
        from pose_format.pose_header import PoseHeader, PoseHeaderCache
        self.Pose, self.PoseHeader, self.Cache = Pose, PoseHeader, PoseHeaderCache
        fns = {CHK: PoseHeaderCache.check_cache, CALC: PoseHeaderCache.calc_hash, SETC: PoseHeaderCache.set_cache,
               HREAD: PoseHeader.read, PREAD: Pose.read}
        self.watch = {}
        for key, f in fns.items():
            code = f.__code__
            if self.info is not None:
                lines = set(self.info["yield_lines"][key])
            else:   # translator failed: yield at every line of the five functions (no model run, oracle only)
                lines = {ln for _, _, ln in code.co_lines() if ln is not None}
            self.watch[code] = (key, lines)
        self.hread_code = PoseHeader.read.__code__
        self.lock_attr = self.info["lock"] if self.info else next((a for a in ("lock", "_lock") if hasattr(PoseHeaderCache, a)), None)
        self.files = file_table()
        self.solo_cache = {}
        import pose_format
        self.pkgdir = os.path.dirname(os.path.abspath(pose_format.__file__)) + os.sep
        # CPython 3.12 delivers no 'opcode' events to the first frame on which f_trace_opcodes is switched on in a process (the
        # instrumentation takes effect from the next frame on): switch it on once here, on a throw-away read, so that every counting
        # and replay run below sees all of them
        for _ in range(2):
            LineReplay(None, self.pkgdir, opcodes=True).run([lambda: self.Pose.read(self.files["A"])])

    # ---- cases
    def configs(self, rng, tier):
        b, s = "bytes", "stream"
        ef, sf = {"end_frame": 2}, {"start_frame": 1}
        core = [
            ([("A", b, None), ("B", b, None)], "A"),        # the F13 witness pair: same end offset, other header
            ([("A", b, None), ("C", b, None)], "A"),        # other end offset
            ([("A", b, None), ("A2", b, None)], "A"),       # equal headers: both hit
            ([("A", b, None), ("C", b, None)], None),       # cold memo: both miss and store
            ([("Along", s, ef), ("C", b, None)], "A"),      # window read of a stream (partial prefetch) vs bytes
        ]
        extra = [
            ([("C", b, None), ("D", b, None)], "C"), ([("D", b, None), ("C", b, None)], "D"),
            ([("A", s, None), ("Bd", s, None)], "A"), ([("Along", s, ef), ("Clong", s, ef)], None),
            ([("Along", s, sf), ("B", b, None)], "Along"), ([("A", b, None), ("Xh", b, None)], "A"),
            ([("Xb", b, None), ("A", b, None)], "A"), ([("E", b, None), ("A", b, None)], "E"),
            ([("A", b, None), ("B", b, None)], "C"), ([("Z", s, ef), ("A", b, None)], "A"),
            ([("A", b, ef), ("B", b, sf)], "B"),
        ]
        if tier == "quick":
            # "late3": three preemptions placed in the second half of both reads (where a miss stores its header): the
            # interleavings in which two stores overlap and a third party observes the memo afterwards
            return [(c, 2) for c in core + rng.sample(extra, 1)] + [(([("A", b, None), ("C", b, None)], None), "late3")]
        return [(c, 3) for c in core] + [(c, 2) for c in extra]

    def gen_cases(self, rng, tier):
        names = sorted(self.files)
        for (jobs, memo0), p in self.configs(rng, tier):
            base = {"files": {n: self.files[n].hex() for n in sorted({j[0] for j in jobs} | ({memo0} if memo0 else set()))},
                    "jobs": [{"f": f, "kind": k, "args": a or {}} for f, k, a in jobs], "memo0": memo0}
            for first in (0, 1):
                for ks in self.lengths(p, tier, rng):
                    segs = [[(first + i) % 2, k] for i, k in enumerate(ks)]
                    yield dict(base, segs=segs + tail(2, (segs[-1][0] + 1) % 2))
        # three readers, sampled
        n3 = 150 if tier == "quick" else 2500
        kinds = [("bytes", None), ("bytes", None), ("stream", None), ("stream", {"end_frame": 2}), ("bytes", {"end_frame": 1})]
        pool = [n for n in names if n != "Z"]
        for _ in range(n3):
            fs = [rng.choice(pool) for _ in range(3)]
            jobs = []
            for f in fs:
                k, a = rng.choice(kinds)
                jobs.append({"f": f, "kind": k, "args": a or {}})
            memo0 = rng.choice([None, fs[0], rng.choice(pool)])
            nseg = rng.randrange(2, 7)
            segs, last = [], None
            for _i in range(nseg):
                t = rng.choice([x for x in range(3) if x != last])
                segs.append([t, rng.randrange(1, LMAX)])
                last = t
            yield {"files": {n: self.files[n].hex() for n in sorted(set(fs) | ({memo0} if memo0 else set()))},
                   "jobs": jobs, "memo0": memo0, "segs": segs + tail(3, (last + 1) % 3)}
        yield from self.line_cases(rng, tier)

    # one preemption at EVERY executed source line of pose_format inside Pose.read (oracle only: this is the search
    # for shared state the thread model does not know about)
    LINE_PAIRS = [(("A", "bytes", None), ("A2", "bytes", None)), (("A", "bytes", None), ("C", "bytes", None)),
                  (("C", "stream", None), ("D", "stream", None)), (("Along", "stream", {"end_frame": 2}), ("Clong", "stream", {"start_frame": 1, "end_frame": 5})),
                  (("Along", "stream", {"end_frame": 3}), ("A2", "bytes", None)), (("E", "bytes", None), ("B", "stream", {"end_frame": 1})),
                  (("T", "bytes", None), ("S", "bytes", None)), (("L1", "bytes", None), ("L2", "bytes", None))]

    def count_lines(self, case, opcodes=False, hot=False):
        self.Cache.clear_cache()
        rp = LineReplay(None, self.pkgdir, opcodes=opcodes)
        rp.run([self.open_job(case, case["jobs"][0])])
        return (rp.nlines, rp.hot) if hot else rp.nlines

    class ColdModules:
        """the pose_format package imported afresh for the duration of one case: every piece of module- or class-level state that
        the library builds lazily (tables grown on demand, locks or caches created on first use) is in its initial state, so a race
        on its FIRST use can be scheduled; the modules the rest of the check uses are put back afterwards"""

        def __init__(self, prop):
            self.prop = prop

        def __enter__(self):
            p = self.prop
            self.saved = {k: m for k, m in sys.modules.items() if k == "pose_format" or k.startswith("pose_format.")}
            self.old = (p.Pose, p.Cache)
            for k in self.saved:
                del sys.modules[k]
            try:
                with PkgLocks():
                    from pose_format import Pose as P2
                    from pose_format.pose_header import PoseHeaderCache as C2
                p.Pose, p.Cache = P2, C2
            except Exception:
                self.__exit__()
                raise
            return self

        def __exit__(self, *a):
            p = self.prop
            for k in [k for k in sys.modules if k == "pose_format" or k.startswith("pose_format.")]:
                del sys.modules[k]
            sys.modules.update(self.saved)
            p.Pose, p.Cache = self.old

    def line_cases(self, rng, tier):
        budget = 70 if tier == "quick" else None           # k values per (pair, order); thorough: every line
        for a, b in self.LINE_PAIRS:
            for jobs in ((a, b), (b, a)):
                base = {"mode": "line", "files": {j[0]: self.files[j[0]].hex() for j in jobs},
                        "jobs": [{"f": f, "kind": k, "args": x or {}} for f, k, x in jobs], "memo0": None}
                n = self.count_lines(base)
                ks = list(range(1, n + 1))
                if budget is not None and n > budget:
                    ks = sorted(rng.sample(ks, budget))
                for i, k in enumerate(ks):
                    yield dict(base, k=k, lines=n, **({"cold": True} if i % 4 == 3 else {}))
                # the same with one BYTECODE as the unit (a sample: a read executes thousands)
                nop, hot = self.count_lines(base, opcodes=True, hot=True)
                kso = list(range(1, nop + 1))
                bo = 40 if tier == "quick" else 700
                if nop > bo:
                    kso = sorted(rng.sample(kso, bo))
                for i, k in enumerate(kso):
                    # every third: in a freshly imported package (first-use races), the others in the warm process
                    yield dict(base, k=k, lines=nop, gran="opcode", **({"cold": True} if i % 3 == 0 else {}))
                # bytecodes executed inside functions that name a module-level list / dict / set / bytearray (state shared by all
                # threads; the library as it stands has none on the read path): every one of them (up to a cap), in a freshly
                # imported package - first use - and, every other one, in the warm process too
                with self.ColdModules(self):
                    nopc, hotc = self.count_lines(base, opcodes=True, hot=True)
                cap = 300 if tier == "quick" else 3000
                if len(hotc) > cap:
                    hotc = sorted(rng.sample(hotc, cap))
                for i, k in enumerate(hotc):
                    yield dict(base, k=k, lines=nopc, gran="opcode", cold=True, hot=True)
                for k in hot[:cap:2]:
                    yield dict(base, k=k, lines=nop, gran="opcode", hot=True)

    @staticmethod
    def lengths(p, tier, rng):
        rg = range(1, LMAX + 1)
        if p == "late3":
            return [(i, j, k) for i in range(7, LMAX + 4) for j in range(7, LMAX + 4) for k in range(1, 8)]
        if p == 2:
            return [(i, j) for i in rg for j in rg]
        return [(i, j, k) for i in rg for j in rg for k in rg]

    def features(self, case):
        if case.get("mode") == "line":
            return ("one-preemption-at-any-" + case.get("gran", "line") + ("-cold-modules" if case.get("cold") else ""), ",".join("%s%s" % (j["kind"][0], "w" if j["args"] else "") for j in case["jobs"]),
                    "same-header" if {j["f"] for j in case["jobs"]} <= {"A", "A2", "Along"} else "diff")
        kinds = ",".join("%s%s" % (j["kind"][0], "w" if j["args"] else "") for j in case["jobs"])
        fs = [j["f"] for j in case["jobs"]]
        rel = "same-file" if len(set(fs)) < len(fs) else "diff"
        return (len(case["jobs"]), kinds, "warm" if case["memo0"] else "cold", rel, "switches=%d" % self.explicit_switches(case))

    @staticmethod
    def explicit_switches(case):
        n = len(case["jobs"])
        return max(0, len(case["segs"]) - len(tail(n)) - 1)

    def nontrivial(self, case):
        if case.get("mode") == "line":
            return case["k"] <= case.get("lines", case["k"])
        # the first switch certainly preempts a running thread: no read has fewer than 6 line steps in the memo code
        return self.explicit_switches(case) >= 1 and case["segs"][0][1] < 6

    # ---- implementation
    def open_job(self, case, j):
        data = bytes.fromhex(case["files"][j["f"]])
        args = {k: v for k, v in j["args"].items() if v is not None}
        if j["kind"] == "bytes":
            return lambda: self.Pose.read(data, **args)
        return lambda: self.Pose.read(io.BytesIO(data), **args)

    def set_memo0(self, case, other=None):
        self.Cache.clear_cache()
        m = other if other is not None else case["memo0"]
        if m:
            try:
                self.Pose.read(bytes.fromhex(case["files"][m]) if m in case["files"] else self.files[m])
            except Exception:
                pass

    def observe(self, res, obs):
        out = {"res": ["err"] if res is None or res[0] != "ok" else ["ok", pg.dump_pose(res[1])]}
        if res is not None and res[0] == "sched":
            out["res"] = ["sched"]
        if obs is not None:
            out["hdr"] = dump_header(obs[0])
            out["off"] = obs[1]
        return out

    def solo(self, case, j, memo=None):
        """the read made alone (memo as the case starts, or as given)"""
        m = case["memo0"] if memo is None else memo
        key = (case["files"][j["f"]], j["kind"], tuple(sorted(j["args"].items())), case["files"].get(m, m))
        if key not in self.solo_cache:
            self.set_memo0(case, memo)
            rp = Replay(1, self.watch, self.hread_code)
            rp.run([self.open_job(case, j)], [0] * (3 * LMAX))
            self.solo_cache[key] = self.observe(rp.res[0], rp.obs[0])
        return self.solo_cache[key]

    def run_impl_line(self, case):
        solos = [self.solo(case, j, memo="") for j in case["jobs"]]
        if case.get("cold"):
            with self.ColdModules(self):
                return self._run_impl_line(case, solos)
        return self._run_impl_line(case, solos)

    def _run_impl_line(self, case, solos):
        self.Cache.clear_cache()
        rp = LineReplay(case["k"], self.pkgdir, opcodes=case.get("gran") == "opcode")
        orig = getattr(self.Cache, self.lock_attr, None) if self.lock_attr else None
        if orig is not None:
            setattr(self.Cache, self.lock_attr, CoopLock(orig, rp))
        try:
            complete = rp.run([self.open_job(case, j) for j in case["jobs"]])
        finally:
            if orig is not None:
                setattr(self.Cache, self.lock_attr, orig)
        th = [self.observe(rp.res[t], None) for t in range(2)]
        case["_threads"], case["_solos"], case["_where"] = th, solos, rp.at[0]
        case["_after"] = self.aftermath(case) if complete else None
        return {"complete": complete, "threads": th, "preempted_at": rp.at[0]}

    def run_impl(self, case):
        if case.get("mode") == "line":
            return self.run_impl_line(case)
        n = len(case["jobs"])
        sched = expand(case["segs"])
        solos = [self.solo(case, j, memo="") for j in case["jobs"]]     # alone, on an empty memo
        self.set_memo0(case)
        rp = Replay(n, self.watch, self.hread_code)
        orig = getattr(self.Cache, self.lock_attr, None) if self.lock_attr else None
        if orig is not None:
            setattr(self.Cache, self.lock_attr, CoopLock(orig, rp))
        try:
            complete = rp.run([self.open_job(case, j) for j in case["jobs"]], sched)
        finally:
            if orig is not None:
                setattr(self.Cache, self.lock_attr, orig)
        toks = self.info["line_tokens"] if self.info else None
        traces = [[] for _ in range(n)]
        for t, at in rp.trace:
            traces[t].append([at[0], toks[at[0]].get(at[1], "?") if toks else str(at[1])])
        th = [dict(self.observe(rp.res[t], rp.obs[t]), trace=traces[t]) for t in range(n)]
        case["_threads"], case["_solos"] = th, solos
        # the caller of thread 0 now edits ITS result in place (header numbers, names, lists, body): what the other threads were
        # handed must not move (results of concurrent reads are as separate as results of reads made alone)
        case["_moved"] = None
        if complete and rp.res[0] is not None and rp.res[0][0] == "ok":
            try:
                pg._scribble(rp.res[0][1])
            except Exception:
                pass
            for t in range(1, n):
                if rp.res[t] is not None and rp.res[t][0] == "ok" and ["ok", pg.dump_pose(rp.res[t][1])] != th[t]["res"]:
                    case["_moved"] = t
                    break
        case["_after"] = self.aftermath(case) if complete else None
        return {"complete": complete, "threads": th}

    def aftermath(self, case):
        """every file read once more, sequentially, on the memo the concurrent reads left behind: what they stored must not
        make a later read of any of the files wrong"""
        out = []
        for j in case["jobs"]:
            rp = Replay(1, self.watch, self.hread_code)
            rp.run([self.open_job(case, j)], [0] * (3 * LMAX))
            out.append(self.observe(rp.res[0], rp.obs[0]))
        return out

    # ---- model
    def model_request(self, case):
        if case.get("mode") == "line":
            return None           # judged by the oracle only
        if self.info is None or self.info["locked"] is None:
            return None
        d, s = self.info["prefetch"]
        memo0 = [list(bytes.fromhex(case["files"][case["memo0"]]))] if case["memo0"] else []
        jobs = [[0 if j["kind"] == "bytes" else 1, list(bytes.fromhex(case["files"][j["f"]])), pg.args_tree(j["args"])] for j in case["jobs"]]
        return [1, 1 if self.info["locked"] else 0, d, s, memo0, jobs, expand(case["segs"])]

    def model_output(self, case, reply):
        complete, ths = reply
        out = []
        for r, trace, pose in ths:
            o = {"trace": [list(LABEL.get(l, ("?", str(l)))) for l in trace]}
            if r and r[0] == 1:
                o["hdr"], o["off"] = header_of_tree(r[1]), r[2]
            o["fail"] = bool(r) and r[0] == 0
            if pose:
                o["res"] = pg.result_of_tree(pose[0], pg.pose_of_tree)
            out.append(o)
        return {"complete": bool(complete), "threads": out}

    def compare(self, case, impl_out, model_out):
        if impl_out["complete"] != model_out["complete"] or not impl_out["complete"]:
            return "schedule completes: implementation %s, model %s" % (impl_out["complete"], model_out["complete"])
        for t, (a, b) in enumerate(zip(impl_out["threads"], model_out["threads"])):
            if a["trace"] != b["trace"]:
                k = next((i for i in range(min(len(a["trace"]), len(b["trace"]))) if a["trace"][i] != b["trace"][i]), min(len(a["trace"]), len(b["trace"])))
                return "thread %d: yield-point traces differ at step %d (implementation %s, model %s)" % (
                    t, k, a["trace"][k:k + 1], b["trace"][k:k + 1])
            if b["fail"]:
                if a["res"][0] != "err":
                    return "thread %d: model predicts an exception, implementation returned a pose" % t
                continue
            if a.get("hdr") != b.get("hdr") or a.get("off") != b.get("off"):
                return "thread %d: PoseHeader.read returned a different header/offset than the model (offsets %s / %s)" % (t, a.get("off"), b.get("off"))
            if "res" in b and pg.strip_err(a["res"]) != b["res"]:
                return "thread %d: decoded pose differs from the model's" % t
        return None

    # ---- oracle: each thread == the same read made alone
    def stream_reader_stable(self, case, j):
        """a BytesIOReader's body decoding may depend on the prefetch length (a reader defect owned by C03); the
        full-pose comparison is made only for jobs whose solo result does not depend on what the memo holds"""
        if not (j["kind"] == "stream" and j["args"]):
            return True
        ref = self.solo(case, j, memo="")["res"]
        for m in sorted(case["files"]):
            if self.solo(case, j, memo=m)["res"] != ref:
                return False
        return True

    def oracle(self, case):
        ths, solos = case.get("_threads"), case.get("_solos")
        if ths is None:
            return None
        if case.get("mode") == "line":
            for t, (a, s) in enumerate(zip(ths, solos)):
                if a["res"] != s["res"]:
                    w = case.get("_where")
                    return {"what": "thread %d (file %s) returns %s, alone %s, when thread 0 is preempted once before %s and the other read "
                                    "runs meanwhile" % (t, case["jobs"][t]["f"], "a different pose" if a["res"][0] == "ok" else "an exception",
                                                        "a pose" if s["res"][0] == "ok" else "an exception", w),
                            "thread": t, "kind": "line", "preempted_at": list(w) if w else None}
            for t, (a, s) in enumerate(zip(case.get("_after") or [], solos)):
                if a["res"] != s["res"]:
                    w = case.get("_where")
                    return {"what": "after the two reads finished (thread 0 preempted once before %s), a sequential read of file %s returns %s "
                                    "where the same read alone returns %s: the memo they left behind is inconsistent"
                                    % (w, case["jobs"][t]["f"], a["res"][0], s["res"][0]),
                            "thread": t, "kind": "line", "preempted_at": list(w) if w else None}
            return None
        for t, (a, s) in enumerate(zip(ths, solos)):
            j = case["jobs"][t]
            if a["res"] == ["sched"]:
                return {"what": "replay scheduler failed", "thread": t}
            if a.get("hdr") != s.get("hdr") or a.get("off") != s.get("off"):
                others = [u for u in range(len(ths)) if u != t]
                foreign = [u for u in others if a.get("hdr") is not None and a.get("hdr") == solos[u].get("hdr")]
                kind = ("foreign-header" if a.get("hdr") != s.get("hdr") and foreign else
                        "foreign-offset" if a.get("hdr") == s.get("hdr") else "wrong-header")
                return {"what": "thread %d (file %s): PoseHeader.read returned %s; alone it returns its own header at offset %s, "
                                "here offset %s" % (t, j["f"], kind, s.get("off"), a.get("off")), "thread": t, "kind": kind,
                        "alone_offset": s.get("off"), "got_offset": a.get("off"), "got_points": common.small([c["points"] for c in (a.get("hdr") or {}).get("comps", [])], 200)}
            if a["res"] != s["res"] and self.stream_reader_stable(case, j):
                return {"what": "thread %d (file %s): the pose differs from the pose the same read returns alone (%s vs %s)" % (
                    t, j["f"], a["res"][0], s["res"][0]), "thread": t, "kind": "pose"}
        if case.get("_moved") is not None:
            t = case["_moved"]
            return {"what": "thread %d's result (file %s) changed when the caller of thread 0 edited its own result in place after the "
                            "concurrent reads: the two results share state" % (t, case["jobs"][t]["f"]), "thread": t, "kind": "shared-result"}
        for t, (a, s) in enumerate(zip(case.get("_after") or [], solos)):
            j = case["jobs"][t]
            if a["res"] != s["res"] and self.stream_reader_stable(case, j):
                return {"what": "after the concurrent reads finished, a sequential read of file %s returns %s where the same read alone "
                                "returns %s: the memo they left behind is inconsistent" % (j["f"], a["res"][0], s["res"][0]),
                        "thread": t, "kind": "aftermath"}
        return None

    def classify(self, case, failure):
        if failure.get("kind") == "line":
            w = failure.get("preempted_at") or ["?", "?", 0]
            return "read-path-race-at-%s:%s" % (w[0], w[1])
        if failure.get("kind") in ("foreign-header", "foreign-offset", "wrong-header", "pose", "aftermath", "shared-result"):
            return "header-memo-race-" + failure["kind"]
        return "c18-" + str(failure.get("what", "?"))[:30].replace(" ", "-")


PROP = C18
