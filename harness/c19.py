"""C19 - OpenPose import puts every keypoint where it belongs.

Correspondence: the extracted Gallina model (coq/model/C19_*.v, runner "c19") against utils/openpose.py /
utils/openpose_135.py driven through their public functions (load_openpose, load_openpose_directory,
load_openpose_135_directory, get_frame_id).  Oracle: the property statement evaluated on the implementation alone
against a NumPy reference written here from the OpenPose output format (never the Coq model)."""
import json
import math
import os
import struct
import tempfile

import numpy as np

import common
import translate_c19

NAN32 = 0x7FC00000
# OpenPose output format (independent of the repository tables): JSON field -> number of keypoints, in pose order
LAYOUT_137 = [("pose_keypoints_2d", 25), ("face_keypoints_2d", 70), ("hand_left_keypoints_2d", 21), ("hand_right_keypoints_2d", 21)]
SUFFIX = "_keypoints.json"
# BODY_25 keypoint order of the OpenPose output documentation (doc/02_output.md), independent of the repository table
BODY_25 = ["Nose", "Neck", "RShoulder", "RElbow", "RWrist", "LShoulder", "LElbow", "LWrist", "MidHip", "RHip", "RKnee", "RAnkle", "LHip",
           "LKnee", "LAnkle", "REye", "LEye", "REar", "LEar", "LBigToe", "LSmallToe", "LHeel", "RBigToe", "RSmallToe", "RHeel"]


def b64(x):
    return struct.unpack("<Q", struct.pack("<d", float(x)))[0]


def canon32(w):
    return NAN32 if (w & 0x7FFFFFFF) > 0x7F800000 else w


def f32w(x):
    with np.errstate(all="ignore"):
        return canon32(int(np.array([float(x)], dtype=np.float64).astype(np.float32).view(np.uint32)[0]))


def cps(s):
    return [ord(c) for c in s]


def words32(a):
    a = np.ascontiguousarray(np.asarray(a, dtype=np.float32))
    return [canon32(int(w)) for w in a.view(np.uint32).ravel()]


def num_tree(x):
    return [0, int(x)] if isinstance(x, int) else [1, b64(x)]


def fps_bits(x):
    try:
        return b64(float(x))
    except (OverflowError, ValueError):
        return "unrepresentable"


# ------------------------------------------------------------------------------------------------ generators
X_SPECIAL = [0, 0.0, -0.0, 1, 640, 1e-50, -1e-50, 1e39, -1e39, 16777217, 0.1, 1 / 3, 5e-324, 1.401298464324817e-45,
             3.4028235677973366e38, 3.4028234663852886e38, 1.1754943508222875e-38, 2 ** 53, -12.5]
C_ZERO = [0, 0.0, -0.0, 1e-50, -1e-60, 7.006492321624085e-46]      # all become float32 +-0
C_ODD = [-0.5, 2.5, 1, float("nan"), float("inf"), 1.5e-45, -1.5e-45]


def gen_xy(rng):
    r = rng.random()
    if r < 0.12:
        return rng.choice(X_SPECIAL)
    if r < 0.25:
        return rng.randrange(0, 2000)
    if r < 0.3:
        return -rng.random() * 100
    return rng.random() * rng.choice([1.0, 1000.0, 1920.0])


def gen_c(rng, pzero):
    r = rng.random()
    if r < pzero:
        return rng.choice(C_ZERO)
    if r < pzero + 0.06:
        return rng.choice(C_ODD)
    return 1.0 - rng.random() * 0.999


def gen_numbers(rng, npts, pzero):
    out = []
    for _ in range(npts):
        out += [gen_xy(rng), gen_xy(rng), gen_c(rng, pzero)]
    return out


def gen_person(rng, layout="137"):
    pzero = rng.choice([0.0, 0.15, 0.15, 0.5, 1.0])
    per = {}
    if rng.random() < 0.3:
        per["person_id"] = [-1]
    if layout == "137":
        for name, n in LAYOUT_137:
            per[name] = gen_numbers(rng, n, pzero)
    else:
        per["pose_keypoints_2d"] = gen_numbers(rng, 135, pzero)
        for name, _ in LAYOUT_137[1:]:
            per[name] = []
    if layout == "137" and rng.random() < 0.1:
        # OpenPose found hands / a face but no body for this person: the body block is all zeros, the others are not
        per["pose_keypoints_2d"] = [0.0] * len(per["pose_keypoints_2d"])
    if rng.random() < 0.3:
        per["pose_keypoints_3d"] = []
    if rng.random() < 0.1:                     # field order in the JSON object is irrelevant
        per = dict(reversed(list(per.items())))
    return per


EDGES = ["missing_key", "len_mod3_1", "len_mod3_2", "too_long", "shifted", "short", "layout135", "nf_small", "empty_frames", "nf_zero"]


def gen_frames(rng, max_ids, max_people, id_range, layout="137"):
    n_ids = rng.randrange(1, max_ids + 1)
    ids = rng.sample(range(id_range), min(n_ids, id_range))
    if rng.random() < 0.5:
        ids.sort()
    cap = rng.randrange(0, max_people + 1)
    frames = []
    for fid in ids:
        npeople = rng.randrange(0, cap + 1) if rng.random() < 0.7 else cap
        frames.append([fid, [gen_person(rng, layout) for _ in range(npeople)]])
    return frames


def gen_args(rng, frames):
    fps = rng.choice([24, 25, 30, 60, 29.97, 23.976, 59.94, 0.5, 12.5, 120.0, 30.0, 1e-3, 1000.7, rng.random() * 100])
    w = rng.choice([1000, 1920, 640, 1, 0, 65535, rng.randrange(0, 5000)])
    h = rng.choice([1000, 1080, 480, 1, 0, 65535, rng.randrange(0, 5000)])
    d = rng.choice([0, 0, 0, 1, 300])
    last = max([f[0] for f in frames], default=-1)
    nf = rng.choice([None, None, last + 1, last + 1 + rng.randrange(1, 4), last + 1 + rng.randrange(0, 9)])
    return {"fps": fps, "width": w, "height": h, "depth": d, "num_frames": nf}


def apply_edge(rng, case, edge):
    frames = case["frames"]
    people = [(f, p) for f in frames for p in f[1]]
    case["edge"] = edge
    if edge == "empty_frames":
        case["frames"] = []
        return
    if edge == "nf_small":
        last = max(f[0] for f in frames)
        case["num_frames"] = rng.randrange(0, last + 1)
        return
    if edge == "nf_zero":
        case["num_frames"] = 0
        return
    if not people:
        case["edge"] = "none"
        return
    _, per = rng.choice(people)
    name = rng.choice(LAYOUT_137)[0]
    if edge == "missing_key":
        del per[name]
    elif edge == "len_mod3_1":
        per[name] = per[name] + [1.5]
    elif edge == "len_mod3_2":
        per[name] = per[name][:-1] if per[name] else [1.0, 2.0]
    elif edge == "too_long":
        per[name] = per[name] + [3.0, 4.0, 0.5] * rng.randrange(1, 3)
    elif edge == "shifted":
        a, b = rng.sample([n for n, _ in LAYOUT_137], 2)
        if len(per[b]) >= 3:
            per[a] = per[a] + [7.0, 8.0, 0.25]
            per[b] = per[b][3:]
    elif edge == "short":
        k = rng.randrange(0, len(per[name]) // 3 + 1)
        per[name] = per[name][:3 * k]
    elif edge == "layout135":
        q = gen_person(rng, "135")
        per.clear()
        per.update(q)


PREFIXES = ["CAM2", "MOVIE", "video_12", "a_1_keypoints.json", "x_7_keypoints", "clip-2020_03_01", "Ünï", "n", "12ab", "v1.2",
            "8_keypoints_json", "3_keypoints.jsonn", "_", "x y", "00", "take3_cam_1", "9_keypoints.json_", "j"]


def conforming_name(rng, fid, bare_ok=True):
    digits = "%0*d" % (rng.choice([1, 1, 3, 12, 12, 12, 15]), fid)
    if bare_ok and rng.random() < 0.15:
        return digits + SUFFIX                      # "000000000013_keypoints.json" (test_get_frame_id_no_prefix)
    pre = rng.choice(PREFIXES) if rng.random() < 0.8 else "".join(rng.choice("abkn_.-1290 jsoXé") for _ in range(rng.randrange(0, 9)))
    return pre + "_" + digits + SUFFIX              # [ARBITRARY CHARACTERS]_[FRAME_ID]_keypoints.json


NONCONF = ["1_keypoints.json2_keypoints.json", "keypoints.json", "_keypoints.json", "x_keypoints.json", "5_keypoints7json",
           "12_keypoints\njson", "a\n12_keypoints.json", "12_keypoints.json.bak", "a1b22_keypoints.jsonc333_keypointsXjson",
           "7_keypointsjson", "7_Keypoints.json", "7-keypoints.json", "", "42", "3_keypoints.jso", "1_keypoints.json2",
           "1_keypoints.jso2_keypoints.json", "6_keypoints_json", "n5_keypoints.json"]


def gen_name_case(rng):
    r = rng.random()
    if r < 0.7:
        fid = rng.choice([0, 7, 13, 17, 457, rng.randrange(0, 100), rng.randrange(0, 10 ** 6), rng.randrange(0, 10 ** 15)])
        return {"kind": "fid", "name": conforming_name(rng, fid), "expect_id": fid, "conforming": True}
    if r < 0.85:
        return {"kind": "fid", "name": rng.choice(NONCONF), "conforming": False}
    alphabet = ["_keypoints.json", "_keypoints", "json", ".", "_", "1", "23", "0", "n", "k", "x", "\n", "_keypoints7json"]
    return {"kind": "fid", "name": "".join(rng.choice(alphabet) for _ in range(rng.randrange(1, 8))), "conforming": False}


def gen_load_case(rng, big):
    frames = gen_frames(rng, 6 if big else 3, 3 if big else 2, 13 if big else 7)
    case = {"kind": "load", "frames": frames, "edge": "none"}
    case.update(gen_args(rng, frames))
    if rng.random() < 0.25:
        apply_edge(rng, case, rng.choice(EDGES))
    # history: the same import done once before and its result edited in place (what a caller does with a loaded pose:
    # focus(), renaming, resizing) - the import under test must still record what was requested
    if rng.random() < 0.3:
        case["prior"] = rng.choice(["focus", "dims-inplace", "dims-replace", "body-edit"])
    return case


def gen_dir_case(rng):
    k135 = rng.random() < 0.35
    frames = gen_frames(rng, 4, 2, 8, "135" if k135 else "137")
    if k135 and rng.random() < 0.2:
        frames = gen_frames(rng, 3, 1, 6, "137")     # 137-style files through the 135 loader (correspondence only)
    entries = [[conforming_name(rng, fid), people] for fid, people in frames]
    case = {"kind": "dir135" if k135 else "dir", "entries": entries, "ids": [f[0] for f in frames], "edge": "none"}
    case.update(gen_args(rng, frames))
    r = rng.random()
    if r < 0.08 and entries:
        case["entries"].append([rng.choice(["notes.txt", "x_keypoints.json", "readme"]), []])
        case["edge"] = "nonmatching_file"
    elif r < 0.16 and entries:
        fid, people = frames[0]
        case["entries"].append(["dup_%02d" % fid + SUFFIX, [gen_person(rng, "135" if k135 else "137")]])
        case["edge"] = "duplicate_id"
    if len({e[0] for e in case["entries"]}) != len(case["entries"]):
        case["entries"] = case["entries"][:1]
        case["ids"] = case["ids"][:1]
        case["edge"] = "none"
    return case


# ------------------------------------------------------------------------------------------------ the check
class C19(common.Prop):
    ID = "C19"
    RUNNER = "c19"
    MODEL_FILES = ["base/F32.v", "model/C19_Tables.v", "model/C19_Layout.v", "model/C19_FrameId.v", "model/C19_OpenPose.v"]
    RULE = ("random OpenPose frame dictionaries (1..6 frame ids out of 0..12 in any order, 0..3 people varying between frames, all 137 "
            "keypoints per person with x/y/confidence drawn from uniform values, Python ints, signed zeros, float32 under/overflow, "
            "NaN/inf, confidence exactly 0 / rounding to 0 / negative), requested frame counts None / last+1 / larger, int and "
            "non-integer fps, width/height/depth; ~25% carry one malformed feature (missing field, length not a multiple of 3, "
            "too many / too few / shifted keypoints, 135-layout person, frame count too small or 0, empty dictionary); directories "
            "of frame files (137 and 135 layout) with conforming names, duplicate ids, non-matching files; file names for the frame-id "
            "rule (several digit groups, embedded '_keypoints.json', no prefix, up to 15 digits, non-conforming names); plus the "
            "table case.  non-trivial = a load with at least one person, a name with at least one match, or the tables; distinct by content hash")
    TRUSTED = ["Coq 8.16.1 kernel", "harness/translate_c19.py (fail-closed ast translator with a restricted evaluator for the table expressions)",
               "extraction: ExtrOcamlBasic only; runner/driver.ml", "harness/c19.py canonicalisers (NaN -> one word; errors -> one class; fps compared as a double)"]
    ASSUMPTIONS = ["numpy stores a Python float into a float32 array as base/F32.v f64_to_f32 (round to nearest even, overflow to inf); Python ints in the JSON are |n| <= 2^53 (converted exactly to double first)",
                   "re.findall / int() behave as modelled in C19_FrameId.v on names whose only decimal digits are ASCII (other Unicode Nd characters are outside the model); int() refuses more than 4300 digits",
                   "width/height/depth are Python ints (math.ceil is the identity); frame ids are non-negative",
                   "json.load returns what json.dump wrote (floats round-trip through repr)"]

    def translate(self):
        return translate_c19.gen()

    def translate_outputs(self):
        return ["gen/Gen_C19.v"]

    def setup(self):
        from pose_format.utils import openpose, openpose_135
        self.op, self.op135 = openpose, openpose_135

    # ---- cases
    def gen_cases(self, rng, tier):
        yield {"kind": "tables"}
        n_load, n_dir, n_fid = (150, 40, 300) if tier == "quick" else (2600, 500, 6000)
        for i in range(n_fid):
            yield gen_name_case(rng)
        for i in range(n_load):
            yield gen_load_case(rng, big=(i % 3 == 0))
        for i in range(n_dir):
            yield gen_dir_case(rng)

    def features(self, case):
        k = case["kind"]
        if k == "tables":
            return ("tables",)
        if k == "fid":
            return ("fid", "conforming" if case["conforming"] else "other")
        fr = case["frames"] if k == "load" else [[0, e[1]] for e in case["entries"]]
        mp = max([len(f[1]) for f in fr], default=0)
        nf = case["num_frames"]
        return (k, case["edge"], "nf=None" if nf is None else "nf", "P=%d" % mp, "fps=" + type(case["fps"]).__name__, "after:" + case.get("prior", "-"))

    def nontrivial(self, case):
        k = case["kind"]
        if k == "tables":
            return True
        if k == "fid":
            return SUFFIX[:-5] in case["name"]
        fr = case["frames"] if k == "load" else [[0, e[1]] for e in case["entries"]]
        return any(f[1] for f in fr)

    # ---- implementation
    def dump_pose(self, pose):
        b = pose.body
        data = b.data
        return {"comps": [[cps(c.name), [cps(p) for p in c.points], [list(l) for l in c.limbs], cps(c.format)] for c in pose.header.components],
                "dims": [pose.header.dimensions.width, pose.header.dimensions.height, pose.header.dimensions.depth],
                "fps": fps_bits(b.fps), "fps_type": type(b.fps).__name__,
                "shape": list(data.shape), "cshape": list(b.confidence.shape),
                "data": words32(np.ma.getdata(data)), "mask": [int(x) for x in np.broadcast_to(np.ma.getmaskarray(data), data.shape).ravel()],
                "conf": words32(b.confidence)}

    def call(self, f):
        try:
            with np.errstate(all="ignore"):
                return ["ok", f()]
        except Exception as e:  # every rejection is one class
            return ["err", type(e).__name__]

    def run_impl(self, case):
        k = case["kind"]
        if k == "tables":
            def comps(cs):
                return [[cps(c.name), [cps(p) for p in c.points], [list(l) for l in c.limbs], cps(c.format)] for c in cs]
            r = ["ok", [cps(self.op.OPENPOSE_FRAME_PATTERN), comps(self.op.OpenPose_Components), comps(self.op135.OpenPose_Components)]]
        elif k == "fid":
            r = self.call(lambda: self.op.get_frame_id(case["name"], self.op.OPENPOSE_FRAME_PATTERN))
        elif k == "load":
            frames = {fid: {"version": 1.3, "people": people} for fid, people in case["frames"]}
            if case.get("prior"):
                self.prior_import(case, frames)
            r = self.call(lambda: self.dump_pose(self.op.load_openpose(
                frames, fps=case["fps"], width=case["width"], height=case["height"], depth=case["depth"], num_frames=case["num_frames"])))
        else:
            # the directory's own name is arbitrary text (brackets, stars, question marks, spaces are ordinary characters in a path):
            # a function of the case only
            sub = ["", "take[2]", "a b", "x*y", "rec?1", "[ab]"][(len(case["entries"]) + len(case["entries"][0][0] if case["entries"] else "")) % 6]
            with tempfile.TemporaryDirectory(prefix="c19_") as d0:
                d = os.path.join(d0, sub) if sub else d0
                os.makedirs(d, exist_ok=True)
                if sub == "take[2]":
                    # a sibling directory that a pattern reading of the name would match instead: another recording
                    os.makedirs(os.path.join(d0, "take2"), exist_ok=True)
                    with open(os.path.join(d0, "take2", "other_000000000000_keypoints.json"), "w") as fh:
                        json.dump({"version": 1.3, "people": []}, fh)
                for name, people in case["entries"]:
                    with open(os.path.join(d, name), "w") as fh:
                        json.dump({"version": 1.3, "people": people}, fh)
                with os.scandir(d) as it:
                    case["_order"] = [e.name for e in it]
                fn = self.op.load_openpose_directory if k == "dir" else self.op135.load_openpose_135_directory
                r = self.call(lambda: self.dump_pose(fn(d, fps=case["fps"], width=case["width"], height=case["height"],
                                                        depth=case["depth"], num_frames=case["num_frames"])))
        case["_impl"] = r
        return r

    def prior_import(self, case, frames):
        """an earlier import with the same arguments whose result is then edited by its owner"""
        try:
            p0 = self.op.load_openpose(dict(frames), fps=case["fps"], width=case["width"], height=case["height"],
                                       depth=case["depth"], num_frames=case["num_frames"])
        except Exception:
            return
        try:
            k = case["prior"]
            if k == "focus":
                p0.focus()
            elif k == "dims-inplace":
                p0.header.dimensions.width = 3
                p0.header.dimensions.height = 4
                p0.header.dimensions.depth = 5
            elif k == "dims-replace":
                p0.header.dimensions = type(p0.header.dimensions)(11, 12, 13)
            else:
                p0.body.fps = 1.5
                if p0.body.data.size:
                    p0.body.data[...] = 7.0
                    p0.body.confidence[...] = 0.5
        except Exception:
            pass

    # ---- model
    @staticmethod
    def people_tree(people):
        return [[[cps(kk), [b64(x) for x in v]] for kk, v in per.items()] for per in people]

    def args_tree(self, case):
        nf = case["num_frames"]
        return [num_tree(case["fps"]), case["width"], case["height"], case["depth"], [] if nf is None else [nf]]

    def run_model(self, case, runner):
        k = case["kind"]
        if k == "tables":
            t = runner.ask([5])
            return ["ok", t]
        if k == "fid":
            t = runner.ask([4, cps(case["name"])])
            return ["ok", t[1]] if t[0] == 1 else ["err", t[1]]
        if k == "load":
            t = runner.ask([1, [[fid, self.people_tree(people)] for fid, people in case["frames"]]] + self.args_tree(case))
        else:
            by_name = {n: p for n, p in case["entries"]}
            t = runner.ask([2 if k == "dir" else 3, [[cps(n), self.people_tree(by_name[n])] for n in case["_order"]]] + self.args_tree(case))
        if t[0] != 1:
            return ["err", t[1]]
        comps, dims, fps, shape, data, mask, conf = t[1]
        flat3 = lambda a: [x for f in a for p in f for x in p]
        return ["ok", {"comps": comps, "dims": dims, "fps": b64(float(fps[1])) if fps[0] == 0 else fps[1], "shape": shape,
                       "data": [canon32(w) for cell in flat3(data) for w in cell], "mask": [m for cell in flat3(mask) for m in cell],
                       "conf": [canon32(w) for w in flat3(conf)]}]

    def compare(self, case, impl_out, model_out):
        if impl_out[0] != model_out[0]:
            return "implementation %s, model %s" % (impl_out[:2] if impl_out[0] == "err" else "ok", model_out[:2] if model_out[0] == "err" else "ok")
        if impl_out[0] == "err":
            return None
        a, b = impl_out[1], model_out[1]
        if case["kind"] in ("tables", "fid"):
            return None if a == b else "implementation %s, model %s" % (common.small(a, 200), common.small(b, 200))
        if a["shape"] != b["shape"] + [2] or a["cshape"] != b["shape"]:
            return "shape: implementation %s / %s, model %s" % (a["shape"], a["cshape"], b["shape"])
        for fld in ("comps", "dims", "fps", "conf", "data", "mask"):
            if a[fld] != b[fld]:
                if fld in ("conf", "data", "mask"):
                    i = next(i for i in range(min(len(a[fld]), len(b[fld]))) if a[fld][i] != b[fld][i]) if len(a[fld]) == len(b[fld]) else -1
                    return "%s differs at flat index %d" % (fld, i)
                return "%s: implementation %s, model %s" % (fld, common.small(a[fld], 120), common.small(b[fld], 120))
        return None

    # ---- direct oracle (statement of the property on the implementation; NumPy reference, no Coq model)
    def conforming_frames(self, case):
        """-> (frames {id: people}, layout) when the case is inside the property's quantifier, else None"""
        k = case["kind"]
        if k == "load":
            items, layout = case["frames"], "137"
        else:
            if case["edge"] != "none":
                return None
            items, layout = list(zip(case["ids"], [e[1] for e in case["entries"]])), ("137" if k == "dir" else "135")
        ids = [f for f, _ in items]
        if not items or len(set(ids)) != len(ids):
            return None
        nf = case["num_frames"]
        if nf is not None and nf < max(ids) + 1:
            return None
        for _, people in items:
            for per in people:
                for name, n in LAYOUT_137:
                    want = 3 * n if layout == "137" else (405 if name == "pose_keypoints_2d" else 0)
                    if name not in per or len(per[name]) != want:
                        return None
        return dict(items), layout

    def oracle(self, case):
        k = case["kind"]
        r = case.get("_impl")
        if r is None:
            return None
        if k == "tables":
            pat, c137, c135 = r[1]
            bad = []
            if [("".join(map(chr, c[0])), len(c[1])) for c in c137] != LAYOUT_137:
                bad.append("137-point components are not the OpenPose fields with 25/70/21/21 points")
            if c137 and ["".join(map(chr, p)) for p in c137[0][1]] != BODY_25:
                bad.append("pose_keypoints_2d point names are not the BODY_25 order of the OpenPose output format")
            if [len(c[1]) for c in c135] != [135]:
                bad.append("135-point table does not have one component of 135 points")
            for c in c137 + c135:
                if any(not (0 <= a < len(c[1]) and 0 <= b < len(c[1])) for a, b in c[2]) or c[3] != cps("XYC") or len({tuple(p) for p in c[1]}) != len(c[1]):
                    bad.append("component %s: limb out of range, duplicate point or format not XYC" % "".join(map(chr, c[0])))
            return {"what": "; ".join(bad), "kind": "tables"} if bad else None
        if k == "fid":
            if not case["conforming"]:
                return None
            if r != ["ok", case["expect_id"]]:
                return {"what": "frame id of %r is %s, the last digit group before '_keypoints.json' is %d" % (case["name"], r, case["expect_id"]),
                        "kind": "frame-id", "got": r}
            return None
        cf = self.conforming_frames(case)
        if cf is None:
            return None
        frames, layout = cf
        if r[0] != "ok":
            return {"what": "loading conforming OpenPose frames raises %s" % r[1], "kind": "raises"}
        got = r[1]
        F = case["num_frames"] if case["num_frames"] is not None else max(frames) + 1
        P = max(len(p) for p in frames.values())
        K = 137 if layout == "137" else 135
        if got["shape"] != [F, P, K, 2] or got["cshape"] != [F, P, K]:
            return {"what": "shape %s / %s, expected (%d, %d, %d, 2)" % (got["shape"], got["cshape"], F, P, K), "kind": "shape"}
        if got["dims"] != [case["width"], case["height"], case["depth"]]:
            return {"what": "requested size %s not recorded: header has %s" % ([case["width"], case["height"], case["depth"]], got["dims"]), "kind": "dims"}
        if got["fps"] != b64(float(case["fps"])):
            return {"what": "requested frame rate %r not recorded: body.fps = %r" % (case["fps"], struct.unpack("<d", struct.pack("<Q", got["fps"]))[0]
                                                                                     if isinstance(got["fps"], int) else got["fps"]), "kind": "fps"}
        # cell by cell
        with np.errstate(all="ignore"):
            xs = np.zeros((F, P, K, 2), dtype=np.float32)
            cs = np.zeros((F, P, K), dtype=np.float32)
            for f, people in frames.items():
                for p, per in enumerate(people):
                    k0 = 0
                    for name, n in (LAYOUT_137 if layout == "137" else [("pose_keypoints_2d", 135)]):
                        nums = per[name]
                        for i in range(n):
                            xs[f, p, k0 + i, 0] = np.float32(float(nums[3 * i]))
                            xs[f, p, k0 + i, 1] = np.float32(float(nums[3 * i + 1]))
                            cs[f, p, k0 + i] = np.float32(float(nums[3 * i + 2]))
                        k0 += n
        ex, ec = words32(xs), words32(cs)
        em = [int(c & 0x7FFFFFFF == 0) for c in ec for _ in (0, 1)]
        for fld, e in (("conf", ec), ("data", ex), ("mask", em)):
            if got[fld] != e:
                i = next(i for i in range(len(e)) if got[fld][i] != e[i])
                per = K * (2 if fld != "conf" else 1)
                f, rem = divmod(i, P * per)
                p, rem = divmod(rem, per)
                kk = rem // (2 if fld != "conf" else 1)
                present = f in frames and p < len(frames[f])
                return {"what": "%s[frame %d][person %d][point %d] is %s, the JSON says %s (%s)" % (
                    fld, f, p, kk, got[fld][i], e[i], "person listed in the JSON" if present else "frame/person absent from the input"),
                    "kind": "cell-" + fld, "present": present, "point": kk}
        return None

    def classify(self, case, failure):
        kind = failure.get("kind", "unclassified")
        if kind == "fps":
            return "fps-" + ("non-integer" if float(case["fps"]) != math.floor(float(case["fps"])) else "integer")
        return kind


PROP = C19
