"""C19 translator (fail-closed): utils/openpose.py and utils/openpose_135.py -> coq/gen/Gen_C19.v.

Regenerated facts
  * OPENPOSE_FRAME_PATTERN (the value of the string literal),
  * the component tables of both layouts (name, point names, limbs by index, format) - obtained by a small
    *restricted evaluator* over the module-level assignments (literals, +, list comprehensions over range /
    reversed(range), str(), slices, limbs_index, the hand-component lambda); colours are deliberately not
    evaluated (C19 does not depend on them),
  * the statement sequences of load_openpose, get_frame_id, load_frames_directory_dict, load_openpose_directory,
    limbs_index and load_openpose_135_directory (docstrings dropped, `ast.unparse` normal form) - the hand-written
    model in coq/model/C19_OpenPose.v was transcribed from exactly these statements (tie lemmas in
    coq/proofs/C19_GenTie.v).
Anything of an unrecognised shape raises TranslateError (a broken tie)."""
import ast
import os
import warnings

from common import REPO, TranslateError

PY = os.path.join(REPO, "src", "python", "pose_format")


def fail(msg):
    raise TranslateError("translate_c19: " + msg)


def parse(rel):
    try:
        with warnings.catch_warnings():
            warnings.simplefilter("ignore")          # "\D" in a non-raw literal
            import reconcile, translate_py
            return reconcile.reconcile(rel, ast.parse(open(os.path.join(PY, rel)).read()), translate_py.RECONCILED)
    except (OSError, SyntaxError) as e:
        fail("cannot parse %s: %s" % (rel, e))


class Comp:
    def __init__(self, name, points, limbs, fmt):
        self.name, self.points, self.limbs, self.format = name, points, limbs, fmt


class Lam:
    def __init__(self, arg, body):
        self.arg, self.body = arg, body


class Module:
    """lazy, memoising evaluator over the module-level single assignments of one file"""

    def __init__(self, rel, imported=None):
        self.rel = rel
        self.tree = parse(rel)
        self.defs = {}       # name -> value expression (assigned exactly once, never mutated)
        self.funcs = {}
        self.bad = {}        # name -> reason it may not be demanded
        self.memo = {}
        self.imported = imported or {}
        for st in self.tree.body:
            if isinstance(st, (ast.Import, ast.ImportFrom)):
                continue
            if isinstance(st, ast.Expr) and isinstance(st.value, ast.Constant) and isinstance(st.value.value, str):
                continue
            if isinstance(st, ast.FunctionDef):
                if st.name in self.funcs or st.name in self.defs:
                    fail("%s: %s defined twice" % (rel, st.name))
                self.funcs[st.name] = st
                continue
            if isinstance(st, ast.If) and ast.unparse(st.test) == "__name__ == '__main__'" and not st.orelse:
                continue
            if isinstance(st, ast.AnnAssign) and isinstance(st.target, ast.Name) and st.value is not None:
                self._bind(st.target.id, st.value)
                continue
            if isinstance(st, ast.Assign):
                if len(st.targets) == 1 and isinstance(st.targets[0], ast.Name):
                    self._bind(st.targets[0].id, st.value)
                    continue
                ok = True
                for t in st.targets:
                    if isinstance(t, ast.Subscript) and isinstance(t.value, ast.Name):
                        self.bad[t.value.id] = "mutated by a subscript assignment"
                    elif isinstance(t, ast.Attribute) and isinstance(t.value, ast.Name) and t.attr == "__doc__":
                        pass
                    else:
                        ok = False
                if ok:
                    continue
            fail("%s: unrecognised module-level statement: %s" % (rel, ast.unparse(st)[:80]))

    def _bind(self, name, value):
        if name in self.defs or name in self.funcs:
            self.bad[name] = "assigned more than once"
        self.defs[name] = value

    def get(self, name):
        if name in self.memo:
            return self.memo[name]
        if name in self.bad:
            fail("%s: %s is %s" % (self.rel, name, self.bad[name]))
        if name not in self.defs:
            fail("%s: name %s is not a module-level constant" % (self.rel, name))
        v = self.ev(self.defs[name], {})
        self.memo[name] = v
        return v

    def ev(self, e, env):
        if isinstance(e, ast.Constant) and isinstance(e.value, (str, int)) and not isinstance(e.value, bool):
            return e.value
        if isinstance(e, ast.List):
            return [self.ev(x, env) for x in e.elts]
        if isinstance(e, ast.Tuple):
            return tuple(self.ev(x, env) for x in e.elts)
        if isinstance(e, ast.Name):
            if e.id in env:
                return env[e.id]
            return self.get(e.id)
        if isinstance(e, ast.Lambda):
            a = e.args
            if len(a.args) != 1 or a.vararg or a.kwarg or a.kwonlyargs or a.defaults or a.posonlyargs:
                fail("lambda with an unrecognised signature")
            return Lam(a.args[0].arg, e.body)
        if isinstance(e, ast.BinOp):
            l, r = self.ev(e.left, env), self.ev(e.right, env)
            if isinstance(e.op, ast.Add) and ((isinstance(l, str) and isinstance(r, str)) or (isinstance(l, list) and isinstance(r, list))
                                              or (isinstance(l, int) and isinstance(r, int))):
                return l + r
            if isinstance(e.op, ast.Sub) and isinstance(l, int) and isinstance(r, int):
                return l - r
            fail("unsupported binary operation: %s" % ast.unparse(e))
        if isinstance(e, ast.Subscript):
            v = self.ev(e.value, env)
            s = e.slice
            if isinstance(s, ast.Slice):
                if s.upper is not None or s.step is not None or s.lower is None:
                    fail("unsupported slice: %s" % ast.unparse(e))
                lo = self.ev(s.lower, env)
                if not isinstance(lo, int) or lo < 0 or not isinstance(v, (str, list)):
                    fail("unsupported slice: %s" % ast.unparse(e))
                return v[lo:]
            i = self.ev(s, env)
            if not isinstance(i, int) or not isinstance(v, (str, list, tuple)) or not 0 <= i < len(v):
                fail("unsupported subscript: %s" % ast.unparse(e))
            return v[i]
        if isinstance(e, ast.ListComp):
            return self.comp(e.elt, e.generators, env)
        if isinstance(e, ast.Call):
            return self.call(e, env)
        fail("%s: unsupported expression: %s" % (self.rel, ast.unparse(e)[:80]))

    def comp(self, elt, gens, env):
        if not gens:
            return [self.ev(elt, env)]
        g = gens[0]
        if g.ifs or g.is_async:
            fail("comprehension with a condition")
        out = []
        it = self.ev(g.iter, env)
        if not isinstance(it, (list, range)):
            fail("comprehension over a non-list")
        for x in it:
            env2 = dict(env)
            if isinstance(g.target, ast.Name):
                env2[g.target.id] = x
            elif isinstance(g.target, ast.Tuple) and all(isinstance(t, ast.Name) for t in g.target.elts) \
                    and isinstance(x, tuple) and len(x) == len(g.target.elts):
                for t, xv in zip(g.target.elts, x):
                    env2[t.id] = xv
            else:
                fail("unsupported comprehension target")
            out.extend(self.comp(elt, gens[1:], env2))
        return out

    def limbs_index_fn(self):
        if "limbs_index" in self.funcs:
            return self.funcs["limbs_index"]
        if "limbs_index" in self.imported:
            return self.imported["limbs_index"]
        fail("limbs_index is neither defined nor imported in %s" % self.rel)

    def call(self, e, env):
        fu = ast.unparse(e.func)
        args = e.args
        if fu == "str" and len(args) == 1 and not e.keywords:
            v = self.ev(args[0], env)
            if not isinstance(v, int):
                fail("str() of a non-integer")
            return str(v)
        if fu == "range" and 1 <= len(args) <= 2 and not e.keywords:
            vs = [self.ev(a, env) for a in args]
            if not all(isinstance(v, int) for v in vs):
                fail("range() of non-integers")
            return list(range(*vs))
        if fu == "reversed" and len(args) == 1 and not e.keywords:
            v = self.ev(args[0], env)
            if not isinstance(v, list):
                fail("reversed() of a non-list")
            return list(reversed(v))
        if fu == "len" and len(args) == 1 and not e.keywords:
            return len(self.ev(args[0], env))
        if fu == "limbs_index" and len(args) == 2 and not e.keywords:
            f = self.limbs_index_fn()
            body = [ast.unparse(s) for s in body_wo_doc(f)]
            if [a.arg for a in f.args.args] != ["limbs", "points"] or \
                    body != ["return [(points.index(p1), points.index(p2)) for p1, p2 in limbs]"]:
                fail("limbs_index has an unrecognised definition: %s" % body)
            limbs, points = self.ev(args[0], env), self.ev(args[1], env)
            out = []
            for l in limbs:
                if not (isinstance(l, tuple) and len(l) == 2 and l[0] in points and l[1] in points):
                    fail("limb %r names an unknown point" % (l,))
                out.append((points.index(l[0]), points.index(l[1])))
            return out
        if fu == "PoseHeaderComponent" and not args:
            kw = {k.arg: k.value for k in e.keywords}
            if sorted(kw) != ["colors", "limbs", "name", "point_format", "points"]:
                fail("PoseHeaderComponent(...) with unexpected keywords %s" % sorted(kw))
            name, points = self.ev(kw["name"], env), self.ev(kw["points"], env)
            limbs, fmt = self.ev(kw["limbs"], env), self.ev(kw["point_format"], env)   # colours: not evaluated
            if not (isinstance(name, str) and isinstance(fmt, str) and isinstance(points, list) and all(isinstance(p, str) for p in points)
                    and isinstance(limbs, list) and all(isinstance(l, tuple) and len(l) == 2 for l in limbs)):
                fail("PoseHeaderComponent(...) arguments of unexpected types")
            return Comp(name, points, limbs, fmt)
        if isinstance(e.func, ast.Name) and not e.keywords and len(args) == 1 and e.func.id in self.defs:
            f = self.get(e.func.id)
            if isinstance(f, Lam):
                return self.ev(f.body, {f.arg: self.ev(args[0], env)})
        fail("%s: unsupported call: %s" % (self.rel, ast.unparse(e)[:80]))


def body_wo_doc(f):
    b = list(f.body)
    if b and isinstance(b[0], ast.Expr) and isinstance(b[0].value, ast.Constant) and isinstance(b[0].value.value, str):
        b = b[1:]
    return b


def fn_statements(mod, name):
    if name not in mod.funcs:
        fail("%s: function %s not found" % (mod.rel, name))
    f = mod.funcs[name]
    a = f.args
    sig = "def %s(%s)" % (name, ", ".join([x.arg for x in a.posonlyargs + a.args] + (["*" + a.vararg.arg] if a.vararg else [])
                                          + [x.arg for x in a.kwonlyargs] + (["**" + a.kwarg.arg] if a.kwarg else [])))
    return [sig] + [ast.unparse(s) for s in body_wo_doc(f)]


def cstr(s):
    if any(ord(c) > 126 or ord(c) < 32 for c in s if c != "\n"):
        fail("non-ASCII text in a translated fact: %r" % s[:40])
    return '"' + s.replace('"', '""') + '"'


def clist(items, sep=";\n    "):
    return "[]" if not items else "[ " + sep.join(items) + " ]"


def comp_term(c):
    return "(%s,\n   %s,\n   %s,\n   %s)" % (
        cstr(c.name),
        clist([cstr(p) for p in c.points], "; "),
        clist(["(%d, %d)" % l for l in c.limbs], "; "),
        cstr(c.format))


def components(mod, name="OpenPose_Components"):
    v = mod.get(name)
    if not (isinstance(v, list) and v and all(isinstance(c, Comp) for c in v)):
        fail("%s.%s is not a non-empty list of PoseHeaderComponent(...)" % (mod.rel, name))
    return v


HEADER = """(* GENERATED by harness/translate_c19.py from /repo on every run - do not edit. *)
From Coq Require Import String List Arith.
Import ListNotations.
Open Scope string_scope.
"""


def load_tables():
    m137 = Module("utils/openpose.py")
    m135 = Module("utils/openpose_135.py", imported={"limbs_index": m137.funcs.get("limbs_index")})
    imp = [s for s in m135.tree.body if isinstance(s, ast.ImportFrom) and any(a.name == "limbs_index" for a in s.names)]
    if len(imp) != 1 or imp[0].module != "pose_format.utils.openpose" or any(a.asname for a in imp[0].names):
        fail("openpose_135.py does not import limbs_index from pose_format.utils.openpose")
    return m137, m135


def gen():
    m137, m135 = load_tables()
    pat = m137.get("OPENPOSE_FRAME_PATTERN")
    if not isinstance(pat, str):
        fail("OPENPOSE_FRAME_PATTERN is not a string literal")
    out = [HEADER]
    out.append("Definition frame_pattern : string := %s.\n" % cstr(pat))
    for nm, mod in (("components_137", m137), ("components_135", m135)):
        out.append("Definition %s : list (string * list string * list (nat * nat) * string) :=\n  %s.\n"
                   % (nm, clist([comp_term(c) for c in components(mod)])))
    for fnm in ("load_openpose", "get_frame_id", "load_frames_directory_dict", "load_openpose_directory", "limbs_index"):
        out.append("Definition src_%s : list string :=\n  %s.\n" % (fnm, clist([cstr(s) for s in fn_statements(m137, fnm)])))
    out.append("Definition src_load_openpose_135_directory : list string :=\n  %s.\n"
               % clist([cstr(s) for s in fn_statements(m135, "load_openpose_135_directory")]))
    return {"Gen_C19.v": "\n".join(out)}


if __name__ == "__main__":
    print(gen()["Gen_C19.v"])
