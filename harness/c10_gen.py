"""C10 - generator of masked-tensor programs (well-typed stream + a separate ill-typed stream).

A case is {"fw": "torch"|"tf", "stream": "typed"|"illtyped", "inputs": [{"shape","vals","mask"}...], "prog": [instr...]}.
Values are small integers / halves (exact in binary64); a few invalid slots may carry nan / inf garbage.
Shapes are tracked with the NumPy reference interpreter while the program is drawn, so that every
instruction of the typed stream is well-typed for the framework at hand."""
import numpy as np

from c10_ref import RefError, ref_exec, arr, dec_val

MAX_ELEMS = 96
EXT_W = [(0, 8), (1, 25), (2, 40), (3, 27)]
RANK_W = [(0, 6), (1, 20), (2, 34), (3, 26), (4, 14)]
ELEMENTWISE = ["sqrt", "square", "cos", "sin", "tan", "acos", "asin", "atan"]


def wchoice(rng, pairs):
    tot = sum(w for _, w in pairs)
    x = rng.random() * tot
    for v, w in pairs:
        x -= w
        if x < 0:
            return v
    return pairs[-1][0]


def gen_val(rng):
    v = rng.randint(-3, 4)
    if rng.random() < 0.1:
        return v + 0.5
    return v


def gen_shape(rng, rank=None):
    for _ in range(20):
        r = wchoice(rng, RANK_W) if rank is None else rank
        s = [wchoice(rng, EXT_W) for _ in range(r)]
        if int(np.prod(s, dtype=np.int64)) <= 54:
            return s
    return [2]


def gen_tensor(rng, shape=None, garbage=False):
    s = gen_shape(rng) if shape is None else list(shape)
    n = int(np.prod(s, dtype=np.int64))
    mode = wchoice(rng, [("all", 20), ("none", 8), ("rand", 72)])
    p = rng.choice([0.3, 0.5, 0.8])
    mask = [1 if mode == "all" else 0 if mode == "none" else int(rng.random() < p) for _ in range(n)]
    vals = [gen_val(rng) for _ in range(n)]
    if garbage:
        for i in range(n):
            if not mask[i] and rng.random() < 0.5:
                vals[i] = rng.choice(["nan", "inf", "-inf"])
    return {"shape": s, "vals": vals, "mask": mask}


def plain_vals(rng, shape):
    n = int(np.prod(shape, dtype=np.int64))
    return [gen_val(rng) for _ in range(n)]


def bcast_partner(rng, s):
    """a shape that broadcasts with s (possibly larger)"""
    k = rng.randint(0, len(s))
    t = list(s[len(s) - k:])
    for i in range(len(t)):
        if rng.random() < 0.3:
            t[i] = 1
        elif t[i] == 1 and rng.random() < 0.4:
            t[i] = rng.choice([2, 3])
    if rng.random() < 0.25 and len(t) == len(s) and len(t) < 4:
        t = [rng.choice([1, 2])] + t
    return t


def pick_reg(rng, env, pred=lambda v: True):
    cands = [i for i, (v, _) in enumerate(env) if pred(v)]
    if not cands:
        return None
    if rng.random() < 0.6:
        return cands[-1]
    return rng.choice(cands)


def gen_dim(rng, rank, extra=0):
    n = rank + extra
    d = rng.randrange(n)
    return d - n if rng.random() < 0.3 else d


def gen_instr(rng, fw, env, whitelist):
    """draw one instruction (may be ill-typed now and then; the caller validates it with the reference)"""
    kinds = [("getitem", 12), ("getlist", 4), ("arith", 16), ("sum", 9), ("permute", 6), ("squeeze", 5), ("split", 5),
             ("reshape", 7), ("cat", 7), ("stack", 5), ("matmul", 7), ("zerofill", 3), ("unary", 5)]
    if fw == "torch":
        kinds += [("transpose", 5), ("divm", 3), ("fallback", 2 if "unsqueeze" in whitelist else 0)]
    else:
        kinds += [("stat", 14)]
    kind = wchoice(rng, kinds)
    r = pick_reg(rng, env)
    v = env[r][0]
    if kind == "getitem":
        r = pick_reg(rng, env, lambda x: x.ndim >= 1) if rng.random() < 0.9 else r
        if r is None:
            return None
        v = env[r][0]
        key = []
        for ax in range(rng.randint(0, v.ndim)):
            n = v.shape[ax]
            if n > 0 and rng.random() < 0.45:
                i = rng.randrange(n)
                key.append(["i", i - n if rng.random() < 0.3 else i])
            else:
                def bound():
                    return None if rng.random() < 0.4 else rng.randint(-n - 1, n + 1)
                key.append(["s", bound(), bound(), rng.choice([1, 1, 2])])
        return ["getitem", r, key]
    if kind == "getlist":
        r = pick_reg(rng, env, lambda x: x.ndim >= 1 and x.shape[0] >= 1)
        if r is None:
            return None
        n = env[r][0].shape[0]
        ixs = [rng.randrange(n) for _ in range(rng.randint(1, 3))]
        if fw == "torch" and rng.random() < 0.3:
            ixs = [i - n for i in ixs]
        ins = ["getlist", r, ixs]
        if fw == "tf" and rng.random() < 0.5:
            ins.append("gather")
        return ins
    if kind == "arith":
        ops = ["add", "sub", "mul", "div"]
        c = rng.random()
        if c < 0.4:
            # another register that broadcasts
            cands = []
            for i, (w, _) in enumerate(env):
                try:
                    np.broadcast_shapes(v.shape, w.shape)
                    cands.append(i)
                except ValueError:
                    pass
            o = ["reg", rng.choice(cands)]
        elif c < 0.8:
            s = bcast_partner(rng, list(v.shape))
            o = ["plain", s, plain_vals(rng, s)]
        else:
            o = ["scalar", gen_val(rng)]
        if fw == "tf" and o[0] != "reg":
            ops.append("rdiv")
        return ["arith", rng.choice(ops), r, o]
    if kind == "divm":
        cands = []
        for i, (w, _) in enumerate(env):
            try:
                np.broadcast_shapes(v.shape, w.shape)
                cands.append(i)
            except ValueError:
                pass
        return ["divm", r, rng.choice(cands), int(rng.random() < 0.5)]
    if kind == "sum":
        if fw == "tf" and (v.ndim == 0 or rng.random() < 0.15):
            return ["sum", r, None]
        r = pick_reg(rng, env, lambda x: x.ndim >= 1)
        if r is None:
            return None
        return ["sum", r, gen_dim(rng, env[r][0].ndim)]
    if kind == "transpose":
        r = pick_reg(rng, env, lambda x: x.ndim >= 1)
        if r is None:
            return None
        n = env[r][0].ndim
        return ["transpose", r, gen_dim(rng, n), gen_dim(rng, n)]
    if kind == "permute":
        p = list(range(v.ndim))
        rng.shuffle(p)
        if fw == "torch":
            p = [d - v.ndim if rng.random() < 0.2 else d for d in p]
        return ["permute", r, p]
    if kind == "squeeze":
        if rng.random() < 0.3:
            return ["squeeze", r, None]
        if fw == "tf":
            r = pick_reg(rng, env, lambda x: 1 in x.shape)
            if r is None:
                return None
            v = env[r][0]
            d = rng.choice([k for k in range(v.ndim) if v.shape[k] == 1])
            return ["squeeze", r, d - v.ndim if rng.random() < 0.3 else d]
        r = pick_reg(rng, env, lambda x: x.ndim >= 1)
        if r is None:
            return None
        return ["squeeze", r, gen_dim(rng, env[r][0].ndim)]
    if kind == "split":
        r = pick_reg(rng, env, lambda x: x.ndim >= 1)
        if r is None:
            return None
        v = env[r][0]
        d = gen_dim(rng, v.ndim)
        n = v.shape[d]
        if rng.random() < 0.5:
            if fw == "torch":
                a = rng.randint(1, max(1, n))
            else:
                a = rng.choice([k for k in range(1, max(1, n) + 1) if n % k == 0])
        else:
            a, left = [], n
            while left > 0 and len(a) < 3:
                k = rng.randint(0, left)
                a.append(k)
                left -= k
            a.append(left)
        return ["split", r, a, d]
    if kind == "reshape":
        n = v.size
        if n == 0:
            shp = [0] + [rng.choice([1, 2])] * rng.randint(0, 2)
            rng.shuffle(shp)
        else:
            shp, left = [], n
            for _ in range(rng.randint(0, 3)):
                divs = [k for k in (1, 2, 3, 4, 6) if left % k == 0]
                k = rng.choice(divs)
                shp.append(k)
                left //= k
            shp.append(left)
            rng.shuffle(shp)
            if rng.random() < 0.3:
                shp[rng.randrange(len(shp))] = -1
        return ["reshape", r, shp]
    if kind == "cat":
        r = pick_reg(rng, env, lambda x: x.ndim >= 1)
        if r is None:
            return None
        v = env[r][0]
        d = gen_dim(rng, v.ndim)
        dn = d % v.ndim
        os_ = [["reg", r]]
        for _ in range(rng.randint(0, 2)):
            c = rng.random()
            if c < 0.5:
                cands = [i for i, (w, _) in enumerate(env) if w.ndim == v.ndim and all(w.shape[k] == v.shape[k] for k in range(v.ndim) if k != dn)]
                os_.append(["reg", rng.choice(cands)])
            else:
                s = list(v.shape)
                s[dn] = wchoice(rng, EXT_W)
                os_.append(["plain", s, plain_vals(rng, s)])
        rng.shuffle(os_)
        return ["cat", os_, d]
    if kind == "stack":
        cands = [i for i, (w, _) in enumerate(env) if w.shape == v.shape]
        rs = [r] + [rng.choice(cands) for _ in range(rng.randint(0, 2))]
        return ["stack", rs, gen_dim(rng, v.ndim, extra=1)]
    if kind == "matmul":
        r = pick_reg(rng, env, lambda x: x.ndim >= 2)
        if r is None:
            return None
        v = env[r][0]
        s = [v.shape[-1], wchoice(rng, [(0, 5), (1, 20), (2, 40), (3, 30), (v.shape[-1], 25)])]
        return ["matmul", r, s, plain_vals(rng, s)]
    if kind == "stat":
        k = wchoice(rng, [("mean", 35), ("var", 35), ("std", 30)])
        if v.ndim == 0 or rng.random() < 0.2:
            return [k, r, None]
        return [k, r, gen_dim(rng, v.ndim)]
    if kind == "zerofill":
        return ["zerofill", r]
    if kind == "unary":
        names = [x for x in whitelist if x in ELEMENTWISE]
        if fw == "tf" and rng.random() < 0.5:
            return ["unary", rng.choice(["sqrt", "square"]), "method", r]
        if not names:
            return None
        # sqrt / square are executable in the Coq model; the others are compared through the NumPy reference only
        name = rng.choice(names) if rng.random() < 0.35 else rng.choice([x for x in names if x in ("sqrt", "square")] or names)
        return ["unary", name, "fallback", r]
    if kind == "fallback":
        return ["fallback", "unsqueeze", r, [gen_dim(rng, v.ndim, extra=1)]]
    return None


def make_env(inputs):
    return [(arr(t["shape"], [dec_val(x) for x in t["vals"]]), np.array(t["mask"], dtype=bool).reshape(t["shape"])) for t in inputs]


def gen_typed(rng, fw, maxlen, whitelist):
    garbage = rng.random() < 0.12
    inputs = [gen_tensor(rng, garbage=garbage)]
    for _ in range(wchoice(rng, [(0, 50), (1, 35), (2, 15)])):
        # further inputs are often shaped like the first one (so that stack / cat / arithmetic have partners)
        inputs.append(gen_tensor(rng, shape=inputs[0]["shape"] if rng.random() < 0.5 else None, garbage=garbage))
    env = make_env(inputs)
    prog = []
    if rng.random() < 0.08:
        # a tensor next to a view of itself with other strides (its own transpose; needs equal extents on the two axes): stacked /
        # concatenated / added, every operand keeps ITS values and ITS validity
        n = rng.choice([2, 3, 4])
        inputs[0] = gen_tensor(rng, shape=[n, n] + ([rng.choice([1, 2, 3])] if rng.random() < 0.4 else []), garbage=garbage)
        env = make_env(inputs)
        for ins in (["transpose", 0, 0, 1], rng.choice([["stack", [0, len(env)], rng.randrange(0, 3)], ["stack", [len(env), 0], 0],
                                                        ["cat", [["reg", 0], ["reg", len(env)]], rng.randrange(0, 2)],
                                                        ["arith", rng.choice(["add", "mul", "sub"]), 0, ["reg", len(env)]]])):
            try:
                outs = ref_exec(fw, ins, env)
            except RefError:
                break
            prog.append(ins)
            env.extend(outs)
    want = rng.randint(max(1, len(prog)), max(maxlen, len(prog)))
    tries = 0
    while len(prog) < want and tries < 12 * maxlen:
        tries += 1
        ins = gen_instr(rng, fw, env, whitelist)
        if ins is None:
            continue
        try:
            outs = ref_exec(fw, ins, env)
        except RefError:
            continue
        if any(o[0].size > MAX_ELEMS for o in outs) or len(env) + len(outs) > 24:
            continue
        prog.append(ins)
        env.extend(outs)
    return {"fw": fw, "stream": "typed", "inputs": inputs, "prog": prog}


def corrupt(rng, fw, ins, env):
    """make the instruction ill-typed in a way whose rejection is modelled (None if not applicable)"""
    op = ins[0]
    ins = [list(x) if isinstance(x, list) else x for x in ins]
    if op == "getitem":
        v = env[ins[1]][0]
        if v.ndim == 0:
            return None
        n = v.shape[0]
        ins[2] = [["i", rng.choice([n, -n - 1])]] + ins[2][1:]
        return ins
    if op in ("sum", "squeeze") and ins[2] is not None:
        v = env[ins[1]][0]
        ins[2] = rng.choice([v.ndim, -v.ndim - 1])
        return ins
    if op == "reshape":
        v = env[ins[1]][0]
        ins[2] = [v.size + 1]
        return ins
    if op == "stack":
        v = env[ins[1][0]][0]
        other = [i for i, (w, _) in enumerate(env) if w.shape != v.shape]
        if not other:
            return None
        ins[1] = ins[1] + [rng.choice(other)]
        return ins
    if op == "cat":
        v = make_operand_shape(ins[1][0], env)
        if len(v) < 2:
            return None
        d = ins[2] % len(v)
        s = list(v)
        k = (d + 1) % len(v)
        s[k] = s[k] + 1
        ins[1] = ins[1] + [["plain", s, plain_vals(rng, s)]]
        return ins
    if op == "matmul":
        ins[2] = [ins[2][0] + 1, ins[2][1]]
        ins[3] = plain_vals(rng, ins[2])
        return ins
    if op == "permute":
        if len(ins[2]) < 2:
            return None
        ins[2] = [ins[2][0]] * len(ins[2])
        return ins
    if op == "split" and isinstance(ins[2], list):
        ins[2] = ins[2] + [1]
        return ins
    if op == "arith" and ins[3][0] == "plain":
        v = env[ins[2]][0]
        if v.ndim == 0 or v.shape[-1] in (1,):
            return None
        s = [v.shape[-1] + 1]
        ins[3] = ["plain", s, plain_vals(rng, s)]
        return ins
    return None


def make_operand_shape(o, env):
    if o[0] == "reg":
        return list(env[o[1]][0].shape)
    return list(o[1])


def gen_illtyped(rng, fw, maxlen, whitelist):
    for _ in range(30):
        c = gen_typed(rng, fw, maxlen, whitelist)
        if not c["prog"]:
            continue
        env = make_env(c["inputs"])
        ok = True
        for ins in c["prog"][:-1]:
            env.extend(ref_exec(fw, ins, env))
        bad = corrupt(rng, fw, c["prog"][-1], env)
        if bad is None:
            continue
        try:
            ref_exec(fw, bad, env)
            continue          # still well-typed
        except RefError:
            pass
        c["prog"][-1] = bad
        c["stream"] = "illtyped"
        return c
    return None
