"""Assemble MANIFEST.json from manifest.d/*.json (one fragment per property) and manifest.d/_base.json."""
import glob
import json
import os

ROOT = os.path.dirname(os.path.dirname(os.path.abspath(__file__)))
base = json.load(open(os.path.join(ROOT, "manifest.d", "_base.json")))
checks = []
enabled = set(open(os.path.join(ROOT, "manifest.d", "_enabled.txt")).read().split())
for f in sorted(glob.glob(os.path.join(ROOT, "manifest.d", "C*.json"))):
    c = json.load(open(f))
    if c["property_id"] in enabled:      # only checks the lead has accepted (run clean on /repo) are registered
        checks.append(c)
base["checks"] = checks
claimed = {c["property_id"] for c in checks}
base["not_applicable"] = [x for x in base.get("not_applicable", []) if x["property_id"] not in claimed]
json.dump(base, open(os.path.join(ROOT, "MANIFEST.json"), "w"), indent=1)
print("MANIFEST.json: %d checks, %d not_applicable" % (len(checks), len(base["not_applicable"])))
