"""C10 - fail-closed translator for the four masked-tensor sources.

Regenerates, on every run, coq/gen/Gen_C10.v:
  * the two `doesnt_change_mask` white-lists (sorted),
  * for every modelled method its statement list (docstrings dropped, `ast.unparse` text) - the model in
    coq/model/C10_Masked.v was transcribed from exactly these statements (tie lemmas in proofs/C10_GenTie.v),
  * the value of the five switches of `C10_Masked.cfg`: at five places the source is recognised in exactly two
    shapes (pinned / repaired, DESIGN section 7 F9 + F16); the recognised statement is replaced by a token in
    the statement list and the switch records which shape was found.  Anything else raises TranslateError."""
import ast
import os

from common import REPO, TranslateError

PY = os.path.join(REPO, "src", "python", "pose_format")

TORCH_TENSOR_METHODS = ["__init__", "__getitem__", "arithmetic", "__add__", "__sub__", "__mul__", "__truediv__", "sum",
                        "zero_filled", "div", "matmul", "transpose", "permute", "squeeze", "split", "reshape"]
TORCH_STATIC = ["cat", "stack", "squeeze"]
TF_TENSOR_METHODS = ["__init__", "__getitem__", "arithmetic", "__add__", "__sub__", "__mul__", "__truediv__", "__rtruediv__",
                     "square", "sqrt", "sum", "fix_nan", "zero_filled", "matmul", "transpose", "squeeze", "split", "reshape",
                     "gather", "mean", "variance", "std"]
TF_STATIC = ["concat", "stack"]


def fail(msg):
    raise TranslateError("translate_c10: " + msg)


def parse(rel):
    try:
        import reconcile, translate_py
        return reconcile.reconcile(rel, ast.parse(open(os.path.join(PY, rel)).read()), translate_py.RECONCILED)
    except (OSError, SyntaxError) as e:
        fail("cannot parse %s: %s" % (rel, e))


def cls(tree, name):
    r = [n for n in tree.body if isinstance(n, ast.ClassDef) and n.name == name]
    if len(r) != 1:
        fail("class %s not found exactly once" % name)
    return r[0]


def fn(c, name):
    r = [n for n in c.body if isinstance(n, ast.FunctionDef) and n.name == name]
    if len(r) != 1:
        fail("method %s not found exactly once in %s" % (name, c.name))
    return r[0]


def stmts(f):
    """signature + flattened statement texts of a function (docstring dropped; nested blocks rendered by ast.unparse)"""
    b = list(f.body)
    if b and isinstance(b[0], ast.Expr) and isinstance(b[0].value, ast.Constant) and isinstance(b[0].value.value, str):
        b = b[1:]
    return ["def(%s)" % ast.unparse(f.args)] + [ast.unparse(s) for s in b]


def whitelist(c):
    r = [n for n in c.body if isinstance(n, ast.Assign) and len(n.targets) == 1 and ast.unparse(n.targets[0]) == "doesnt_change_mask"]
    if len(r) != 1 or not isinstance(r[0].value, ast.Set):
        fail("%s.doesnt_change_mask is not a set literal" % c.name)
    names = []
    for e in r[0].value.elts:
        if not (isinstance(e, ast.Constant) and isinstance(e.value, str)):
            fail("%s.doesnt_change_mask holds a non-literal" % c.name)
        names.append(e.value)
    if len(set(names)) != len(names):
        fail("duplicate name in doesnt_change_mask")
    return sorted(names)


def switch(lines, where, pinned, repaired, token):
    """replace the (consecutive) statements `pinned` or `repaired` inside `lines` by [token]; -> (lines, is_repaired)"""
    for variant, flag in ((repaired, True), (pinned, False)):
        n = len(variant)
        for i in range(len(lines) - n + 1):
            if lines[i:i + n] == variant:
                return lines[:i] + [token] + lines[i + n:], flag
    fail("%s: neither the pinned nor the repaired shape was found in %r" % (where, lines))


def cstr(s):
    return '"' + s.replace('"', '""') + '"'


def clist(items):
    return "[]" if not items else "[ " + ";\n      ".join(items) + " ]"


def ctable(name, table):
    rows = ["(%s,\n    %s)" % (cstr(k), clist([cstr(x) for x in v])) for k, v in table]
    return "Definition %s : list (string * list string) :=\n  %s.\n" % (name, "[ " + ";\n  ".join(rows) + " ]")


def facts():
    """-> dict with white-lists, method tables and switches (also used by the harness to drive the generator)"""
    out = {}
    # ---------------- torch
    tt = cls(parse("torch/masked/tensor.py"), "MaskedTensor")
    m = {name: stmts(fn(tt, name)) for name in TORCH_TENSOR_METHODS}
    # arithmetic: the else branch of the isinstance test is inside one `if` statement text
    m["arithmetic"], a_t = _arith_tail(m["arithmetic"], "torch arithmetic", "    mask = self.mask", "    mask = self.mask.expand(tensor.shape)")
    m["div"], d_t = _div(m["div"])
    if a_t != d_t:
        fail("torch arithmetic and div treat the mask of a broadcast result differently")
    m["matmul"], mm_t = switch(m["matmul"], "torch matmul",
                               ["return MaskedTensor(tensor, self.mask)"],
                               ["mask = self.mask.bool().all(dim=-1, keepdim=True).expand(tensor.shape)", "return MaskedTensor(tensor, mask)"],
                               "return MaskedTensor(tensor, <MATMUL-MASK>)")
    m["zero_filled"], zf_t = switch(m["zero_filled"], "torch zero_filled",
                                    ["return self.tensor.mul(self.mask)"],
                                    ["return torch.where(self.mask.bool(), self.tensor, torch.zeros_like(self.tensor))"],
                                    "return <ZERO-FILLED>")
    out["torch_methods"] = [(k, m[k]) for k in TORCH_TENSOR_METHODS]
    tmod = parse("torch/masked/torch.py")
    tfb = cls(tmod, "TorchFallback")
    wl = whitelist(tfb)
    out["torch_unsq_listed"] = "unsqueeze" in wl
    out["torch_whitelist"] = [x for x in wl if x != "unsqueeze"]
    out["torch_whitelist_full"] = wl
    ts = cls(tmod, "MaskedTorch")
    out["torch_static"] = [("TorchFallback.__getattr__", stmts(fn(tfb, "__getattr__")))] + [(k, stmts(fn(ts, k))) for k in TORCH_STATIC]
    # ---------------- tensorflow
    ft = cls(parse("tensorflow/masked/tensor.py"), "MaskedTensor")
    m = {name: stmts(fn(ft, name)) for name in TF_TENSOR_METHODS}
    m["arithmetic"], a_f = _arith_tail(m["arithmetic"], "tf arithmetic", "    mask = self.mask", "    mask = tf.broadcast_to(self.mask, tf.shape(tensor))")
    m["matmul"], mm_f = switch(m["matmul"], "tf matmul",
                               ["return MaskedTensor(tensor=tensor, mask=self.mask)"],
                               ["mask = tf.broadcast_to(tf.reduce_all(tf.cast(self.mask, tf.bool), axis=-1, keepdims=True), tf.shape(tensor))",
                                "return MaskedTensor(tensor=tensor, mask=mask)"],
                               "return MaskedTensor(tensor=tensor, mask=<MATMUL-MASK>)")
    m["zero_filled"], zf_f = switch(m["zero_filled"], "tf zero_filled",
                                    ["return self.tensor * tf.cast(self.mask, dtype=self.tensor.dtype)"],
                                    ["return tf.where(tf.cast(self.mask, tf.bool), self.tensor, tf.zeros_like(self.tensor))"],
                                    "return <ZERO-FILLED>")
    m["variance"], kd = switch(m["variance"], "tf variance", ["means = self.mean(axis=axis)"],
                               ["means = self.mean(axis=axis, keepdims=True)"], "means = <MEAN-ALONG-AXIS>")
    # mean: without / with the keepdims parameter (the latter forwards it to both reductions)
    mean_pinned = ["def(self, axis=None)",
                   "mt_sum = tf.math.reduce_sum(self.zero_filled(), axis=axis)",
                   "mt_count = tf.math.reduce_sum(tf.cast(self.mask, mt_sum.dtype), axis=axis)"]
    mean_rep = ["def(self, axis=None, keepdims=False)",
                "mt_sum = tf.math.reduce_sum(self.zero_filled(), axis=axis, keepdims=keepdims)",
                "mt_count = tf.math.reduce_sum(tf.cast(self.mask, mt_sum.dtype), axis=axis, keepdims=keepdims)"]
    m["mean"], mean_kd = switch(m["mean"], "tf mean", mean_pinned, mean_rep, "<MEAN-HEAD>")
    if kd and not mean_kd:
        fail("tf variance asks for keepdims but mean does not take it")
    out["tf_methods"] = [(k, m[k]) for k in TF_TENSOR_METHODS]
    fmod = parse("tensorflow/masked/tensorflow.py")
    ffb = cls(fmod, "TensorflowFallback")
    out["tf_whitelist"] = whitelist(ffb)
    out["tf_whitelist_full"] = out["tf_whitelist"]
    fs = cls(fmod, "MaskedTensorflow")
    out["tf_static"] = [("TensorflowFallback.__getattr__", stmts(fn(ffb, "__getattr__")))] + [(k, stmts(fn(fs, k))) for k in TF_STATIC]
    out["cfg_torch"] = {"matmul_rowall": mm_t, "plain_bcast": a_t, "unsq_listed": out["torch_unsq_listed"], "var_keepdims": True, "zf_where": zf_t}
    out["cfg_tf"] = {"matmul_rowall": mm_f, "plain_bcast": a_f, "unsq_listed": False, "var_keepdims": kd, "zf_where": zf_f}
    return out


def _arith_tail(lines, where, pinned, repaired):
    """`arithmetic` is `def`, one if/else statement, one return; the else branch ends with the mask assignment"""
    if len(lines) != 3 or not lines[1].startswith("if isinstance(other, MaskedTensor):"):
        fail("%s: unexpected statement structure %r" % (where, lines))
    body = lines[1].split("\n")
    if body[-1] == repaired:
        flag = True
    elif body[-1] == pinned:
        flag = False
    else:
        fail("%s: mask of the non-masked operand branch is %r" % (where, body[-1]))
    body[-1] = "    mask = <MASK-OF-PLAIN-OPERAND>"
    return [lines[0], "\n".join(body), lines[2]], flag


def _div(lines):
    pinned = "mask = self.mask & other.mask if update_mask else self.mask"
    repaired = "mask = self.mask & other.mask if update_mask else self.mask.expand(tensor.shape)"
    return switch(lines, "torch div", [pinned], [repaired], "mask = self.mask & other.mask if update_mask else <MASK-OF-PLAIN-OPERAND>")


def cbool(b):
    return "true" if b else "false"


def gen():
    f = facts()
    lines = ["(* GENERATED by harness/translate_c10.py from /repo on every run - do not edit. *)",
             "From Coq Require Import String List.", "Import ListNotations.", "Open Scope string_scope.", ""]
    for side in ("torch", "tf"):
        c = f["cfg_" + side]
        for k in ("matmul_rowall", "plain_bcast", "unsq_listed", "var_keepdims", "zf_where"):
            lines.append("Definition %s_%s : bool := %s." % (side, k, cbool(c[k])))
    lines.append("")
    lines.append("Definition torch_whitelist : list string := %s.\n" % clist([cstr(x) for x in f["torch_whitelist"]]))
    lines.append("Definition tf_whitelist : list string := %s.\n" % clist([cstr(x) for x in f["tf_whitelist"]]))
    lines.append(ctable("torch_methods", f["torch_methods"]))
    lines.append(ctable("torch_static", f["torch_static"]))
    lines.append(ctable("tf_methods", f["tf_methods"]))
    lines.append(ctable("tf_static", f["tf_static"]))
    return {"Gen_C10.v": "\n".join(lines)}


if __name__ == "__main__":
    for k, v in gen().items():
        print(v)
