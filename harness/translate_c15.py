"""Fail-closed translator for C15: regenerates coq/gen/Gen_C15.v from the anchored sources.

What is emitted (and tied to the hand-written model by coq/proofs/C15_GenTie.v):
  * the bbox header constants (point names, limb, colour) as Coq values            pose_header.py  PoseHeader.bbox
  * the remaining statements of PoseHeader.bbox / Pose.bbox as normalised text     pose_header.py, pose.py
  * flip / matmul / bbox / __init__ of NumPyPoseBody as normalised statement lists  numpy/pose_body.py
    (bbox: the two repaired places are recognised in exactly two shapes each and emitted as kinds)
  * augment2d as a *structured* step list (guard, matrix cell / layout, draw)        pose_body.py
  * Pose.focus and PoseHeaderDimensions.__init__ (signature + statements)           pose.py, pose_header.py
  * POINTS_DIMS, Pose.pass_through_methods
Anything whose shape is not recognised raises TranslateError (a broken tie)."""
import ast

from common import TranslateError
from translate_py import HEADER, body_wo_doc, clist, cls, cstr, fail, fn, parse


def stmts(f):
    return [ast.unparse(s) for s in body_wo_doc(f)]


def lit(node, where):
    try:
        return ast.literal_eval(node)
    except Exception:
        fail("%s: not a literal: %s" % (where, ast.unparse(node)[:60]))


def ztuple(t):
    return "(" + ", ".join("%d%%Z" % int(x) for x in t) + ")"


def header_bbox():
    th = parse("pose_header.py")
    f = fn(cls(th, "PoseHeader"), "bbox")
    b = body_wo_doc(f)
    consts, rest = {}, []
    for st in b:
        if isinstance(st, ast.Assign) and len(st.targets) == 1 and isinstance(st.targets[0], ast.Name) \
                and st.targets[0].id in ("box_points", "box_limbs", "box_colors"):
            consts[st.targets[0].id] = lit(st.value, "PoseHeader.bbox")
        else:
            rest.append(ast.unparse(st))
    if set(consts) != {"box_points", "box_limbs", "box_colors"}:
        fail("PoseHeader.bbox: box_points / box_limbs / box_colors literals not found")
    pts, limbs, cols = consts["box_points"], consts["box_limbs"], consts["box_colors"]
    if not (isinstance(pts, list) and all(isinstance(p, str) and p.isascii() for p in pts)):
        fail("PoseHeader.bbox: box_points is not a list of ASCII strings")
    if not (isinstance(limbs, list) and all(isinstance(l, tuple) and len(l) == 2 and all(isinstance(x, int) for x in l) for l in limbs)):
        fail("PoseHeader.bbox: box_limbs is not a list of int pairs")
    if not (isinstance(cols, list) and all(isinstance(c, tuple) and len(c) == 3 and all(isinstance(x, int) for x in c) for c in cols)):
        fail("PoseHeader.bbox: box_colors is not a list of int triples")
    return pts, limbs, cols, rest


def dims_init():
    th = parse("pose_header.py")
    f = fn(cls(th, "PoseHeaderDimensions"), "__init__")
    a = f.args
    if a.kwonlyargs or a.kwarg or a.posonlyargs:
        fail("PoseHeaderDimensions.__init__: unexpected kind of parameter")
    names = [x.arg for x in a.args]
    defaults = [ast.unparse(d) for d in a.defaults]
    sig = "%s|defaults=%s|vararg=%s" % (",".join(names), ",".join(defaults), a.vararg.arg if a.vararg else "")
    return sig, stmts(f)


CONF_MASK_OLD = ["confidence_mask = np.split(new_data.mask, [-1], axis=3)[0]",
                 "confidence_mask = np.squeeze(confidence_mask, axis=-1)"]
CONF_MASK_NEW = ["confidence_mask = ma.getmaskarray(new_data)[:, :, :, 0]"]
EMPTY_COMP = ("components = [c if len(c) > 0 else ma.masked_all((1,) + c.shape[1:], dtype=c.dtype) for c in components]")


def numpy_bbox(f):
    """statement list of NumPyPoseBody.bbox with the two repaired places replaced by kind tokens"""
    src = stmts(f)
    kind_mask = None
    for shape, kind in ((CONF_MASK_OLD, "SplitSqueezeLastAxis"), (CONF_MASK_NEW, "IndexAxis0")):
        for i in range(len(src) - len(shape) + 1):
            if src[i:i + len(shape)] == shape:
                src[i:i + len(shape)] = ["<confidence_mask>"]
                kind_mask = kind
                break
        if kind_mask:
            break
    if kind_mask is None:
        fail("NumPyPoseBody.bbox: the confidence-mask statements have an unrecognised shape")
    if EMPTY_COMP in src:
        src.remove(EMPTY_COMP)
        kind_empty = "MissingBox"
    else:
        kind_empty = "Raises"
    return src, kind_mask, kind_empty


def augment_steps(f):
    """augment2d -> structured steps.  Recognised exactly:
         matrix = np.eye(2)
         if <p>_std > 0:  (shear)    M = np.eye(2); M[i][j] = <draw p>; matrix = np.dot(matrix, M)
         if <p>_std > 0:  (rotation) a = <draw p>; c = np.cos(a); s = np.sin(a); M = np.array([[..],[..]]); matrix = np.dot(matrix, M)
         if <p>_std > 0:  (scale)    M = np.eye(2); M[i][j] += <draw p>; matrix = np.dot(matrix, M)
         dim_matrix = np.eye(self.data.shape[-1]); dim_matrix[0:2, 0:2] = matrix
         return self.matmul(dim_matrix.astype(dtype=np.float32))"""
    params = [a.arg for a in f.args.args]
    b = body_wo_doc(f)
    if not b or ast.unparse(b[0]) != "matrix = np.eye(2)":
        fail("augment2d: does not start with matrix = np.eye(2)")
    steps = []
    i = 1

    def draw_of(node, std):
        want = "np.random.normal(loc=0, scale=%s, size=1)[0]" % std
        if ast.unparse(node) != want:
            fail("augment2d: draw is not %s" % want)

    while i < len(b) and isinstance(b[i], ast.If):
        st = b[i]
        i += 1
        if st.orelse:
            fail("augment2d: if with else")
        t = st.test
        if not (isinstance(t, ast.Compare) and isinstance(t.left, ast.Name) and len(t.ops) == 1 and isinstance(t.ops[0], ast.Gt)
                and ast.unparse(t.comparators[0]) == "0"):
            fail("augment2d: guard is not `<std> > 0`")
        std = t.left.id
        body = st.body
        last = ast.unparse(body[-1])
        if len(body) == 3 and ast.unparse(body[0]).endswith("= np.eye(2)") and isinstance(body[1], (ast.Assign, ast.AugAssign)):
            m = body[0].targets[0].id
            tgt = body[1].target if isinstance(body[1], ast.AugAssign) else body[1].targets[0]
            ok = (isinstance(tgt, ast.Subscript) and isinstance(tgt.value, ast.Subscript) and ast.unparse(tgt.value.value) == m)
            if not ok or last != "matrix = np.dot(matrix, %s)" % m:
                fail("augment2d: unrecognised cell assignment under %s" % std)
            ci, cj = lit(tgt.value.slice, "augment2d"), lit(tgt.slice, "augment2d")
            draw_of(body[1].value, std)
            if isinstance(body[1], ast.AugAssign):
                if not isinstance(body[1].op, ast.Add):
                    fail("augment2d: augmented assignment is not +=")
                steps.append("if %s > 0: eye2 cell(%d,%d) += draw; matrix = matrix . M" % (std, ci, cj))
            else:
                steps.append("if %s > 0: eye2 cell(%d,%d) = draw; matrix = matrix . M" % (std, ci, cj))
        elif len(body) == 5:
            a = body[0]
            if not (isinstance(a, ast.Assign) and isinstance(a.targets[0], ast.Name)):
                fail("augment2d: rotation block does not start with the draw")
            ang = a.targets[0].id
            draw_of(a.value, std)
            c, s = body[1], body[2]
            if not (ast.unparse(c.value) == "np.cos(%s)" % ang and ast.unparse(s.value) == "np.sin(%s)" % ang):
                fail("augment2d: cos / sin of the drawn angle not found")
            cn, sn = c.targets[0].id, s.targets[0].id
            mat = body[3]
            if not (isinstance(mat.value, ast.Call) and ast.unparse(mat.value.func) == "np.array" and len(mat.value.args) == 1):
                fail("augment2d: rotation matrix is not np.array(<literal rows>)")
            rows = ast.unparse(mat.value.args[0]).replace(cn, "cos").replace(sn, "sin")
            if last != "matrix = np.dot(matrix, %s)" % mat.targets[0].id:
                fail("augment2d: rotation not composed by matrix = np.dot(matrix, M)")
            steps.append("if %s > 0: M = %s; matrix = matrix . M" % (std, rows))
        else:
            fail("augment2d: unrecognised block under %s" % std)
    tail = [ast.unparse(s) for s in b[i:]]
    return params, steps, tail


def c15_gen():
    out = [HEADER]
    pts, limbs, cols, rest = header_bbox()
    out.append("Definition box_points : list string :=\n  " + clist([cstr(p) for p in pts]) + ".\n")
    out.append("Definition box_limbs : list (Z * Z) :=\n  " + clist([ztuple(l) for l in limbs]) + ".\n")
    out.append("Definition box_colors : list (Z * Z * Z) :=\n  " + clist([ztuple(c) for c in cols]) + ".\n")
    out.append("Definition header_bbox_rest : list string :=\n  " + clist([cstr(x) for x in rest]) + ".\n")
    sig, init = dims_init()
    out.append("Definition dimensions_init_sig : string := %s.\n" % cstr(sig))
    out.append("Definition dimensions_init : list string :=\n  " + clist([cstr(x) for x in init]) + ".\n")
    tp = parse("pose.py")
    pc = cls(tp, "Pose")
    out.append("Definition pose_focus : list string :=\n  " + clist([cstr(x) for x in stmts(fn(pc, "focus"))]) + ".\n")
    out.append("Definition pose_bbox : list string :=\n  " + clist([cstr(x) for x in stmts(fn(pc, "bbox"))]) + ".\n")
    pt = [n for n in pc.body if isinstance(n, ast.Assign) and ast.unparse(n.targets[0]) == "pass_through_methods"]
    if len(pt) != 1:
        fail("Pose.pass_through_methods not found")
    names = lit(pt[0].value, "pass_through_methods")
    if not (isinstance(names, set) and all(isinstance(x, str) for x in names)):
        fail("Pose.pass_through_methods is not a set of strings")
    out.append("Definition pass_through_methods : list string :=\n  " + clist([cstr(x) for x in sorted(names)]) + ".\n")
    tb = parse("pose_body.py")
    pd = [n for n in tb.body if isinstance(n, ast.Assign) and ast.unparse(n.targets[0]) == "POINTS_DIMS"]
    if len(pd) != 1:
        fail("POINTS_DIMS not found")
    out.append("Definition points_dims : list Z :=\n  " + clist(["%d%%Z" % int(x) for x in lit(pd[0].value, "POINTS_DIMS")]) + ".\n")
    params, steps, tail = augment_steps(fn(cls(tb, "PoseBody"), "augment2d"))
    out.append("Definition augment2d_params : list string :=\n  " + clist([cstr(x) for x in params]) + ".\n")
    out.append("Definition augment2d_steps : list string :=\n  " + clist([cstr(x) for x in steps]) + ".\n")
    out.append("Definition augment2d_tail : list string :=\n  " + clist([cstr(x) for x in tail]) + ".\n")
    tn = parse("numpy/pose_body.py")
    nb = cls(tn, "NumPyPoseBody")
    out.append("Definition numpy_init : list string :=\n  " + clist([cstr(x) for x in stmts(fn(nb, "__init__"))]) + ".\n")
    out.append("Definition numpy_flip : list string :=\n  " + clist([cstr(x) for x in stmts(fn(nb, "flip"))]) + ".\n")
    out.append("Definition numpy_matmul : list string :=\n  " + clist([cstr(x) for x in stmts(fn(nb, "matmul"))]) + ".\n")
    src, kind_mask, kind_empty = numpy_bbox(fn(nb, "bbox"))
    out.append("Definition numpy_bbox : list string :=\n  " + clist([cstr(x) for x in src]) + ".\n")
    out.append("Definition bbox_confidence_mask_kind : string := %s.\n" % cstr(kind_mask))
    out.append("Definition bbox_empty_component_kind : string := %s.\n" % cstr(kind_empty))
    return {"Gen_C15.v": "\n".join(out)}


if __name__ == "__main__":
    for k, v in c15_gen().items():
        print(v)
