"""Evaluate one seeded change against the checks.

usage: eval_seeded.py <dir with patch.diff, demo.py> <property id> [more ids ...] [--tier quick] [--keep <seeded name>]

The change is applied to a scratch worktree of /repo (never to /repo itself); the demonstration is run with and
without it, the pinned test-suite is run with it, and the named checks are run with POSE_REPO pointing at the
worktree.  Afterwards the generated Coq files are regenerated from the real /repo.  With --keep the change is
stored as /verif/seeded/<name>/ (patch.diff, demo, meta.json)."""
import json
import os
import re
import shutil
import subprocess
import sys
import time

ROOT = os.path.dirname(os.path.dirname(os.path.abspath(__file__)))


def sh(cmd, cwd=None, env=None, timeout=3000):
    r = subprocess.run(cmd, shell=True, cwd=cwd, env=env, capture_output=True, text=True, timeout=timeout)
    return r.returncode, r.stdout + r.stderr


def main():
    args = sys.argv[1:]
    tier = "quick"
    keep = None
    if "--tier" in args:
        i = args.index("--tier"); tier = args[i + 1]; del args[i:i + 2]
    if "--keep" in args:
        i = args.index("--keep"); keep = args[i + 1]; del args[i:i + 2]
    d = os.path.abspath(args[0])
    props = args[1:]
    wt = "/tmp/seed-eval-%d" % os.getpid()
    sh("git -C /repo worktree remove --force %s" % wt)
    rc, out = sh("git -C /repo worktree add --detach %s HEAD" % wt)
    assert rc == 0, out
    meta = {"source_dir": d, "properties": props, "tier": tier, "repo_head": sh("git -C /repo rev-parse --short HEAD")[1].strip()}
    try:
        rc, out = sh("git -C %s apply %s/patch.diff" % (wt, d))
        meta["patch_applies"] = (rc == 0)
        if rc != 0:
            meta["apply_error"] = out[-500:]
            print(json.dumps(meta, indent=1))
            return
        env = dict(os.environ, TF_ENABLE_ONEDNN_OPTS="0", OMP_NUM_THREADS="1", TF_CPP_MIN_LOG_LEVEL="3", CUDA_VISIBLE_DEVICES="")
        e1 = dict(env, PYTHONPATH="/repo/src/python")
        e2 = dict(env, PYTHONPATH="%s/src/python" % wt)
        demo = "demo.py"
        rc0, o0 = sh("/venv/bin/python %s" % demo, cwd=d, env=e1)
        rc1, o1 = sh("/venv/bin/python %s" % demo, cwd=d, env=e2)
        meta["demo_exit_unchanged"] = rc0
        meta["demo_exit_with_change"] = rc1
        meta["demo_tail_with_change"] = o1[-300:]
        rc, out = sh("/venv/bin/python -m pytest -q -p no:cacheprovider --timeout=900 --continue-on-collection-errors 2>&1 | tail -1", cwd=wt)
        meta["testsuite_with_change"] = out.strip()
        meta["checks"] = {}
        for p in props:
            t0 = time.time()
            rc, out = sh("./check %s --tier %s" % (p, tier), cwd=ROOT, env=dict(os.environ, POSE_REPO=wt))
            viol = [l for l in out.splitlines() if l.startswith("VIOLATION")]
            concrete = [l for l in viol if "no-failing-input-found" not in l]
            what = []
            for l in viol:
                m = re.search(r"replay=(\S+)", l)
                if m and os.path.exists(m.group(1)):
                    rp = json.load(open(m.group(1)))
                    what.append({"key": rp.get("key"), "what": (rp.get("failure") or {}).get("what"), "broken": rp.get("broken")})
            meta["checks"][p] = {"exit": rc, "violation_lines": len(viol), "with_failing_input": len(concrete),
                                 "summary": out.strip().splitlines()[-1] if out.strip() else "", "found": what[:6],
                                 "wall_s": round(time.time() - t0, 1)}
        print(json.dumps(meta, indent=1, default=str))
        if keep:
            dst = os.path.join(ROOT, "seeded", keep)
            os.makedirs(dst, exist_ok=True)
            for f in os.listdir(d):
                if f in ("patch.diff", "demo.py", "README.md") or f.endswith((".py", ".js", ".json")):
                    shutil.copy(os.path.join(d, f), os.path.join(dst, f))
            json.dump(meta, open(os.path.join(dst, "meta.json"), "w"), indent=1, default=str)
    finally:
        sh("git -C /repo worktree remove --force %s" % wt)
        sh("/venv/bin/python harness/regen.py %s" % " ".join(props), cwd=ROOT, env=dict(os.environ, PYTHONPATH="/repo/src/python"))


if __name__ == "__main__":
    main()
