"""Re-run every kept seeded change (seeded/<name>/patch.diff) against the checks it was evaluated with, on the current
/repo HEAD and the current machinery; writes seeded/SWEEP.json and prints one line per change.
usage: sweep_seeded.py [name-prefix ...]        (sequential: the checks share coq/gen and the build lock)"""
import json
import os
import subprocess
import sys
import tempfile

ROOT = os.path.dirname(os.path.dirname(os.path.abspath(__file__)))
only = sys.argv[1:]
out = {}
for name in sorted(os.listdir(os.path.join(ROOT, "seeded"))):
    d = os.path.join(ROOT, "seeded", name)
    if not os.path.isdir(d) or (only and not any(name.startswith(p) for p in only)):
        continue
    meta = json.load(open(os.path.join(d, "meta.json")))
    props = list(meta.get("checks", {}).keys()) or [name[:3]]
    with tempfile.TemporaryDirectory(prefix="sweep_") as tmp:
        for f in os.listdir(d):
            if f != "meta.json":
                subprocess.run(["cp", os.path.join(d, f), tmp])
        r = subprocess.run([sys.executable, os.path.join(ROOT, "harness", "eval_seeded.py"), tmp] + props,
                           capture_output=True, text=True, cwd=ROOT)
    try:
        res = json.loads(r.stdout[r.stdout.index("{"):])
    except Exception:
        res = {"error": (r.stdout + r.stderr)[-400:]}
    summ = {p: [v["exit"], v["with_failing_input"], sorted({f.get("key") for f in v.get("found", []) if f.get("key")})[:3]]
            for p, v in res.get("checks", {}).items()}
    out[name] = {"repo_head": res.get("repo_head"), "patch_applies": res.get("patch_applies"), "demo": [res.get("demo_exit_unchanged"), res.get("demo_exit_with_change")],
                 "tests": res.get("testsuite_with_change"), "checks": summ, "error": res.get("error")}
    print(name, json.dumps(out[name]["checks"]), "demo", out[name]["demo"], flush=True)
    json.dump(out, open(os.path.join(ROOT, "seeded", "SWEEP.json"), "w"), indent=1)
