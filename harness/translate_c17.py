"""C17 translator (fail-closed): the statement sequences of the representation functions, of the
MaskedTensor methods they call and of PoseRepresentation, regenerated from /repo on every run as
coq/gen/Gen_C17.v.  proofs/C17_GenTie.v pins each sequence to the text the hand-written model was
transcribed from, so any edit of these functions breaks a proof obligation (a harmless rewrite ends in
`no-failing-input-found`, a harmful one additionally meets the correspondence run and the oracle).

Two statements are recognised *semantically* because the model follows their repaired form:
  MaskedTensor.zero_filled (torch)     "Mul"  (pinned: tensor.mul(mask))    | "Where" (repair F9)
  PointsRepresentation.forward, return "View" (pinned: .view(...))          | "Reshape" (repair F17)
any other shape of these two raises TranslateError."""
import ast

import translate_py as tp
from common import TranslateError


def _stmts(f):
    return [ast.unparse(s) for s in tp.body_wo_doc(f)]


def _module_fn(tree, name):
    r = [n for n in tree.body if isinstance(n, ast.FunctionDef) and n.name == name]
    if len(r) != 1:
        tp.fail("function %s not found exactly once at module level" % name)
    return r[0]


def _emit(lines, name, items):
    lines.append("Definition %s : list string :=\n  %s.\n" % (name, tp.clist([tp.cstr(x) for x in items])))


def zero_filled_kind(f):
    src = _stmts(f)
    if src == ["return self.tensor.mul(self.mask)"]:
        return "Mul"
    if src == ["return torch.where(self.mask.bool(), self.tensor, torch.zeros_like(self.tensor))"]:
        return "Where"
    tp.fail("torch MaskedTensor.zero_filled has an unrecognised shape: %s" % src)


def points_forward(f):
    src = _stmts(f)
    if len(src) != 5:
        tp.fail("PointsRepresentation.forward has an unrecognised shape: %s" % src)
    last = src[-1]
    if last == "return p1s.view((-1, shape[2], shape[3]))":
        kind = "View"
    elif last == "return p1s.reshape((-1, shape[2], shape[3]))":
        kind = "Reshape"
    else:
        tp.fail("PointsRepresentation.forward returns an unrecognised expression: %s" % last)
    return src[:-1], kind


def whitelist(tree):
    c = tp.cls(tree, "TorchFallback")
    for n in c.body:
        if isinstance(n, ast.Assign) and ast.unparse(n.targets[0]) == "doesnt_change_mask":
            v = n.value
            if isinstance(v, ast.Set) and all(isinstance(e, ast.Constant) and isinstance(e.value, str) for e in v.elts):
                return sorted(e.value for e in v.elts)
            tp.fail("TorchFallback.doesnt_change_mask is not a set of string literals")
    tp.fail("TorchFallback.doesnt_change_mask not found")


def gen():
    L = [tp.HEADER]
    # ---- torch representations
    t = tp.parse("torch/representation/distance.py")
    c = tp.cls(t, "DistanceRepresentation")
    _emit(L, "torch_distance_distance", _stmts(tp.fn(c, "distance")))
    _emit(L, "torch_distance_forward", _stmts(tp.fn(c, "forward")))
    t = tp.parse("torch/representation/angle.py")
    _emit(L, "torch_angle_forward", _stmts(tp.fn(tp.cls(t, "AngleRepresentation"), "forward")))
    t = tp.parse("torch/representation/inner_angle.py")
    _emit(L, "torch_inner_vectors_norm", _stmts(_module_fn(t, "get_vectors_norm")))
    _emit(L, "torch_inner_forward", _stmts(tp.fn(tp.cls(t, "InnerAngleRepresentation"), "forward")))
    t = tp.parse("torch/representation/point_line_distance.py")
    c = tp.cls(t, "PointLineDistanceRepresentation")
    _emit(L, "torch_pld_init", _stmts(tp.fn(c, "__init__")))
    _emit(L, "torch_pld_forward", _stmts(tp.fn(c, "forward")))
    t = tp.parse("torch/representation/points.py")
    pre, kind = points_forward(tp.fn(tp.cls(t, "PointsRepresentation"), "forward"))
    _emit(L, "torch_points_forward_prefix", pre)
    L.append("Definition torch_points_flatten_kind : string := %s.\n" % tp.cstr(kind))
    # ---- tensorflow representations
    t = tp.parse("tensorflow/representation/distance.py")
    c = tp.cls(t, "DistanceRepresentation")
    _emit(L, "tf_distance_distance", _stmts(tp.fn(c, "distance")))
    _emit(L, "tf_distance_call", _stmts(tp.fn(c, "__call__")))
    t = tp.parse("tensorflow/representation/angle.py")
    _emit(L, "tf_angle_call", _stmts(tp.fn(tp.cls(t, "AngleRepresentation"), "__call__")))
    t = tp.parse("tensorflow/representation/inner_angle.py")
    _emit(L, "tf_inner_vectors_norm", _stmts(_module_fn(t, "get_vectors_norm")))
    _emit(L, "tf_inner_call", _stmts(tp.fn(tp.cls(t, "InnerAngleRepresentation"), "__call__")))
    t = tp.parse("tensorflow/representation/point_line_distance.py")
    c = tp.cls(t, "PointLineDistanceRepresentation")
    _emit(L, "tf_pld_init", _stmts(tp.fn(c, "__init__")))
    _emit(L, "tf_pld_call", _stmts(tp.fn(c, "__call__")))
    # ---- numpy
    t = tp.parse("numpy/representation/distance.py")
    c = tp.cls(t, "DistanceRepresentation")
    _emit(L, "np_distance_distance", _stmts(tp.fn(c, "distance")))
    _emit(L, "np_distance_call", _stmts(tp.fn(c, "__call__")))
    # ---- torch masked tensor methods the representations call
    t = tp.parse("torch/masked/tensor.py")
    c = tp.cls(t, "MaskedTensor")
    for name in ("arithmetic", "__add__", "__sub__", "__mul__", "__truediv__", "pow_", "sum", "fix_nan", "div",
                 "__getitem__", "permute", "split", "squeeze", "transpose"):
        _emit(L, "masked_" + name.strip("_"), _stmts(tp.fn(c, name)))
    L.append("Definition masked_zero_filled_kind : string := %s.\n" % tp.cstr(zero_filled_kind(tp.fn(c, "zero_filled"))))
    t = tp.parse("torch/masked/torch.py")
    _emit(L, "doesnt_change_mask", whitelist(t))
    _emit(L, "torch_fallback_getattr", _stmts(tp.fn(tp.cls(t, "TorchFallback"), "__getattr__")))
    _emit(L, "masked_torch_stack", _stmts(tp.fn(tp.cls(t, "MaskedTorch"), "stack")))
    # ---- the assembled representation
    t = tp.parse("pose_representation.py")
    c = tp.cls(t, "PoseRepresentation")
    for name in ("__init__", "calc_output_size", "get_limbs_points", "get_triangles_points", "get_points", "__call__"):
        _emit(L, "repr_" + name.strip("_"), _stmts(tp.fn(c, name)))
    t = tp.parse("torch/pose_representation.py")
    c = tp.cls(t, "TorchPoseRepresentation")
    for name in ("__init__", "group_embeds", "permute"):
        _emit(L, "torch_repr_" + name.strip("_"), _stmts(tp.fn(c, name)))
    if any(isinstance(n, ast.FunctionDef) and n.name == "get_points" for n in c.body):
        tp.fail("TorchPoseRepresentation overrides get_points (the model uses the base class tensor[points])")
    t = tp.parse("tensorflow/pose_representation.py")
    c = tp.cls(t, "TensorflowPoseRepresentation")
    for name in ("group_embeds", "get_points", "permute"):
        _emit(L, "tf_repr_" + name.strip("_"), _stmts(tp.fn(c, name)))
    if any(isinstance(n, ast.FunctionDef) and n.name in ("__init__", "__call__") for n in c.body):
        tp.fail("TensorflowPoseRepresentation overrides __init__/__call__")
    return {"Gen_C17.v": "\n".join(L)}


if __name__ == "__main__":
    for k, v in gen().items():
        print(v)
