(* Generic driver for every extracted model: one request per line on stdin, one reply per line on
   stdout.  A request/reply is an s-expression over hexadecimal integers ("-" prefix for negatives).
   All per-property logic lives in the extracted Gallina function Model.dispatch : tree -> tree. *)
open Model

let pos_of_bits (bits : bool list) : positive option =
  (* bits most significant first *)
  List.fold_left (fun acc b ->
    match acc with
    | None -> if b then Some XH else None
    | Some p -> Some (if b then XI p else XO p)) None bits

let z_of_token (s : string) : z =
  let neg = String.length s > 0 && s.[0] = '-' in
  let start = if neg then 1 else 0 in
  let bits = ref [] in
  for i = String.length s - 1 downto start do
    let c = s.[i] in
    let v = match c with
      | '0'..'9' -> Char.code c - 48
      | 'a'..'f' -> Char.code c - 87
      | 'A'..'F' -> Char.code c - 55
      | _ -> failwith ("bad digit in token " ^ s) in
    (* prepend so that the final list is MSB first *)
    bits := (v land 8 <> 0) :: (v land 4 <> 0) :: (v land 2 <> 0) :: (v land 1 <> 0) :: !bits
  done;
  match pos_of_bits !bits with
  | None -> Z0
  | Some p -> if neg then Zneg p else Zpos p

let hex_of_pos (p : positive) : string =
  (* iterative to avoid deep recursion on big numbers *)
  let buf = Buffer.create 16 in
  let rec collect p acc = match p with
    | XH -> List.rev (true :: acc)
    | XO q -> collect q (false :: acc)
    | XI q -> collect q (true :: acc) in
  let lsb = collect p [] in            (* LSB first *)
  let arr = Array.of_list lsb in
  let n = Array.length arr in
  let nd = (n + 3) / 4 in
  for d = nd - 1 downto 0 do
    let v = ref 0 in
    for b = 3 downto 0 do
      let i = d * 4 + b in
      v := !v * 2 + (if i < n && arr.(i) then 1 else 0)
    done;
    Buffer.add_char buf "0123456789abcdef".[!v]
  done;
  Buffer.contents buf

let rec print_tree (b : Buffer.t) (t : tree) : unit =
  match t with
  | L Z0 -> Buffer.add_char b '0'
  | L (Zpos p) -> Buffer.add_string b (hex_of_pos p)
  | L (Zneg p) -> Buffer.add_char b '-'; Buffer.add_string b (hex_of_pos p)
  | Nd l ->
    Buffer.add_char b '(';
    List.iteri (fun i x -> if i > 0 then Buffer.add_char b ' '; print_tree b x) l;
    Buffer.add_char b ')'

let parse (s : string) : tree =
  let n = String.length s in
  let pos = ref 0 in
  let skip_ws () =
    while !pos < n && (let c = s.[!pos] in c = ' ' || c = '\t' || c = '\r' || c = '\n') do incr pos done in
  let rec expr () : tree =
    skip_ws ();
    if !pos >= n then failwith "unexpected end of input";
    if s.[!pos] = '(' then begin
      incr pos;
      let items = ref [] in
      let fin = ref false in
      while not !fin do
        skip_ws ();
        if !pos >= n then failwith "unbalanced (";
        if s.[!pos] = ')' then (incr pos; fin := true)
        else items := expr () :: !items
      done;
      Nd (List.rev !items)
    end else begin
      let st = !pos in
      while !pos < n && (let d = s.[!pos] in d <> ' ' && d <> '(' && d <> ')' && d <> '\n' && d <> '\r') do incr pos done;
      if !pos = st then failwith "unexpected )";
      L (z_of_token (String.sub s st (!pos - st)))
    end in
  let t = expr () in
  skip_ws ();
  if !pos <> n then failwith "trailing input";
  t

let () =
  let out = Buffer.create 65536 in
  (try
     while true do
       let line = input_line stdin in
       if String.length line > 0 then begin
         Buffer.clear out;
         (try print_tree out (dispatch (parse line))
          with
          | Stack_overflow -> Buffer.clear out; Buffer.add_string out "!stack_overflow"
          | Failure m -> Buffer.clear out; Buffer.add_string out ("!failure " ^ m));
         print_string (Buffer.contents out);
         print_newline ()
       end
     done
   with End_of_file -> ())
